//go:build !go1.25

package drv

// SyncTest is only available on Go 1.25+.
func SyncTest(t *T, _ func(*T)) {
	if t == nil {
		panic("rapid.SyncTest requires *rapid.T")
	}
	t.Helper()
	t.Fatalf("[rapid] SyncTest requires Go 1.25 or newer")
}
