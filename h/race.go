package vh

import (
	"fmt"
	"os"
	"regexp"
	"sort"
	"strings"
)

// raceWatch follows the race detector's log file (GORACE=log_path=...) of this process.
type raceWatch struct {
	path string
	off  int64
}

func newRaceWatch() *raceWatch {
	w := &raceWatch{}
	for _, f := range strings.Fields(os.Getenv("GORACE")) {
		if strings.HasPrefix(f, "log_path=") {
			w.path = fmt.Sprintf("%s.%d", strings.TrimPrefix(f, "log_path="), os.Getpid())
		}
	}
	return w
}

// New returns what the race detector has reported since the last call.
func (w *raceWatch) New() string {
	if w.path == "" {
		return ""
	}
	b, err := os.ReadFile(w.path)
	if err != nil || int64(len(b)) <= w.off {
		return ""
	}
	s := string(b[w.off:])
	w.off = int64(len(b))
	return s
}

var reRaceFn = regexp.MustCompile(`(?m)^\s+(\S.*)\(\)\s*$`)

// stripTypeArgs removes (nested) bracketed type arguments from a function name.
func stripTypeArgs(fn string) string {
	var b strings.Builder
	depth := 0
	for _, r := range fn {
		switch {
		case r == '[':
			depth++
		case r == ']':
			depth--
		case depth == 0:
			b.WriteRune(r)
		}
	}
	return b.String()
}

// raceKey derives a root-cause key from the first report in text: the innermost library function of each of
// the two conflicting accesses. ok is false when no library function is involved at all.
func raceKey(text string) (key string, lib bool, summary string) {
	rep := text
	if i := strings.Index(rep, "=================="); i >= 0 {
		rep = rep[i+18:]
		if j := strings.Index(rep, "=================="); j >= 0 {
			rep = rep[:j]
		}
	}
	// the two access stacks come first; goroutine creation stacks follow after "Goroutine N (running) created at:"
	acc := rep
	if i := strings.Index(acc, "Goroutine "); i >= 0 {
		acc = acc[:i]
	}
	parts := strings.Split(acc, "\n\n")
	var fns []string
	for _, p := range parts {
		for _, m := range reRaceFn.FindAllStringSubmatch(p, -1) {
			if strings.HasPrefix(m[1], "pgregory.net/rapid.") {
				fn := stripTypeArgs(strings.TrimPrefix(m[1], "pgregory.net/rapid."))
				if i := strings.Index(fn, ".func"); i > 0 {
					fn = fn[:i]
				}
				if i := strings.LastIndex(fn, ".("); i > 0 {
					fn = fn[i+1:] // "(*Generator).String.(*Generator).String" (closure naming) -> last method
				}
				fns = append(fns, fn)
				lib = true
				break
			}
		}
	}
	sort.Strings(fns)
	fns = uniq(fns)
	key = "race:" + strings.Join(fns, "+")
	lines := strings.Split(strings.TrimSpace(rep), "\n")
	if len(lines) > 14 {
		lines = lines[:14]
	}
	return key, lib, strings.Join(lines, " | ")
}

func uniq(s []string) []string {
	var out []string
	for i, x := range s {
		if i == 0 || x != s[i-1] {
			out = append(out, x)
		}
	}
	return out
}
