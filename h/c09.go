package vh

import (
	"fmt"
	"os"
	"strings"
	"testing"

	"pgregory.net/rapid"
	"vh/drv"
)

// C09 - Check does the promised amount of work and never passes vacuously.

type C09Case struct {
	Cfg      CheckCfg `json:"cfg"`
	Prog     *Prog    `json:"prog"`
	PreFiles int      `json:"prefiles"` // pre-seeded fail files (all-zero words of various lengths)
	Heavy    bool     `json:"heavy,omitempty"`
	NoDraw   bool     `json:"nodraw,omitempty"` // never falsified, draws nothing / late / skips by invocation count
	Hosted   bool     `json:"hosted,omitempty"` // also run through MakeCheck on a real *testing.T (of a binary without a test deadline)
}

type c09 struct{}

func init() { register(c09{}) }

func (c09) ID() string       { return "C09" }
func (c09) NewCase() any     { return &C09Case{} }
func (c09) Cases(c *Ctx) int { return c.Pick(700, 14000) }

func (c09) Gen(dt *drv.T, c *Ctx) any {
	cs := &C09Case{}
	if chance(dt, "heavy", 1) && drv.Bool().Draw(dt, "heavy2") {
		// a long run of large test cases: millions of 64-bit words consumed by one Check in total. Whatever a test
		// case may consume is a matter of that test case alone
		cs.Heavy = true
		cs.Cfg = CheckCfg{Name: "TestC09", Checks: drv.IntRange(400, 800).Draw(dt, "N"), Seed: drv.Uint64Range(1, 1<<62).Draw(dt, "seed"), NoFailFile: true}
		n := drv.IntRange(2000, 3000).Draw(dt, "len") // runes; each takes at least two words
		cs.Prog = &Prog{Body: []*Stmt{
			{Op: "draw", Label: "d1", Gen: &GenSpec{K: "int", IK: "Int", Mode: "range", SA: 0, SB: 999}},
			{Op: "draw", Label: "big", Gen: &GenSpec{K: "string", Min: n, Max: n, MaxLen: -1}},
		}}
		return cs
	}
	n := pick(dt, "nhow", "tiny", "small", "small", "mid", "large")
	switch n {
	case "tiny":
		cs.Cfg.Checks = drv.IntRange(0, 3).Draw(dt, "N")
	case "small":
		cs.Cfg.Checks = drv.IntRange(1, 30).Draw(dt, "N")
	case "mid":
		cs.Cfg.Checks = drv.IntRange(31, 120).Draw(dt, "N")
	default:
		cs.Cfg.Checks = drv.IntRange(121, 400).Draw(dt, "N")
	}
	cs.Cfg.Name = "TestC09"
	cs.Cfg.Seed = drv.Uint64Range(1, 1<<62).Draw(dt, "seed")
	cs.Cfg.ShrinkNS = int64(pick(dt, "shrink", 0, 2e6, 2e7))
	cs.Cfg.Verbose = drv.Bool().Draw(dt, "verbose")
	cs.Cfg.NoFailFile = drv.Bool().Draw(dt, "nofailfile")
	if chance(dt, "prefiles", 30) {
		cs.PreFiles = drv.IntRange(1, 3).Draw(dt, "k")
	}
	p := &Prog{}
	if chance(dt, "nodraw", 12) {
		// a property that is never falsified and draws nothing (it tests something that needs no input, or takes its
		// input from elsewhere), or begins to draw only after a few invocations (a warm-up), or is skipped in some
		// invocations for reasons of its own: N valid test cases are owed all the same
		cs.NoDraw = true
		late := &Stmt{Op: "ifinvge", N: drv.IntRange(1, 6).Draw(dt, "warmup"), Body: []*Stmt{{Op: "draw", Label: "late", Gen: &GenSpec{K: "int", IK: "Int", Mode: "range", SA: 0, SB: 999}}}}
		m := drv.IntRange(2, 12).Draw(dt, "skipevery")
		skip := &Stmt{Op: "ifinvmod", N: m, D: int64(drv.IntRange(0, m-1).Draw(dt, "skipat")), Body: []*Stmt{{Op: "skip", Kind: pick(dt, "skipkind", skipKinds...)}}}
		switch pick(dt, "nodrawshape", "empty", "empty", "late", "skip", "skip+late", "late+skip", "log") {
		case "late":
			p.Body = []*Stmt{late}
		case "skip":
			p.Body = []*Stmt{skip}
		case "skip+late":
			p.Body = []*Stmt{skip, late}
		case "late+skip":
			p.Body = []*Stmt{late, skip}
		case "log":
			p.Body = []*Stmt{{Op: "log", N: 8}}
		}
		cs.Prog = p
		cs.Hosted = cs.PreFiles == 0 && chance(dt, "hosted", 20)
		return cs
	}
	p.Body = append(p.Body, &Stmt{Op: "draw", Label: "d1", Gen: &GenSpec{K: "int", IK: "Int", Mode: "range", SA: 0, SB: 999}})
	switch pick(dt, "skippat", "never", "never", "mod", "mod", "mod", "always", "filternever", "ge") {
	case "mod":
		m := pick(dt, "skipmod", 2, 3, 4, 7, 10, 20, 100)
		r := drv.IntRange(0, m-1).Draw(dt, "skipres")
		inv := drv.Bool().Draw(dt, "skipinv") // skip when == r (rate 1/m) or when != r (rate 1-1/m)
		cond := &Cond{Draw: 0, Op: "mod", M: int64(m), C: int64(r)}
		if inv {
			cond.Op = "nmod"
		}
		p.Body = append(p.Body, &Stmt{Op: "if", Cond: cond, Body: []*Stmt{{Op: "skip", Kind: pick(dt, "skipkind", skipKinds...)}}})
	case "ge":
		p.Body = append(p.Body, &Stmt{Op: "if", Cond: &Cond{Draw: 0, Op: "ge", C: int64(drv.IntRange(0, 1000).Draw(dt, "skipge"))}, Body: []*Stmt{{Op: "skip", Kind: "Skip"}}})
	case "always":
		p.Body = append(p.Body, &Stmt{Op: "skip", Kind: pick(dt, "skipkind", skipKinds...)})
	case "filternever":
		p.Body = append(p.Body, &Stmt{Op: "draw", Label: "f", Gen: &GenSpec{K: "filter", Fn: "never", Sub: []*GenSpec{{K: "bool"}}}})
	}
	if chance(dt, "failing", 35) {
		m := pick(dt, "failmod", 2, 5, 17, 50, 200, 997)
		p.Body = append(p.Body, &Stmt{Op: "if", Cond: &Cond{Draw: 0, Op: "mod", M: int64(m), C: int64(drv.IntRange(0, m-1).Draw(dt, "failres"))},
			Body: []*Stmt{genSig(dt, allSigKinds)}})
	}
	if cs.PreFiles > 0 && chance(dt, "flakyfile", 25) {
		// falsified on its very first execution only (the replay of the first pre-seeded file), passes afterwards
		p.Body = append(p.Body, &Stmt{Op: "ifinv", N: 0, Body: []*Stmt{genSig(dt, allSigKinds)}})
	}
	cs.Prog = p
	cs.Hosted = cs.PreFiles == 0 && chance(dt, "hosted", 20)
	return cs
}

// subjectFailFile makes the library under test write one fail file for TB name in the current directory and
// returns its path and its version string; the file is removed again. Names of pre-seeded files are derived
// from this path, so the harness never re-implements the file-name scheme.
func subjectFailFile(name string) (path, version string, ok bool) {
	obs := RunCheck(CheckCfg{Name: name, Checks: 1, Seed: 1, ShrinkNS: 0}, func(t *rapid.T) {
		rapid.Bool().Draw(t, "b")
		t.Fatalf("seed file")
	})
	_ = obs
	files := FailFiles()
	if len(files) != 1 {
		return "", "", false
	}
	v, _, _, err := ParseFailFile(files[0])
	if err != nil {
		return "", "", false
	}
	_ = os.Remove(files[0])
	return files[0], v, true
}

func writeFailFile(path, version string, seed uint64, words []uint64, comment string) {
	var b strings.Builder
	if comment != "" {
		for _, l := range strings.Split(comment, "\n") {
			b.WriteString("# " + l + "\n")
		}
	}
	fmt.Fprintf(&b, "%s#%d", version, seed)
	for _, w := range words {
		fmt.Fprintf(&b, "\n0x%x", w)
	}
	if err := os.WriteFile(path, []byte(b.String()), 0o664); err != nil {
		panic(err)
	}
}

func (c09) Run(c *Ctx, csAny any) Outcome {
	cs := csAny.(*C09Case)
	out := Outcome{}
	dir := EnterCaseDir()
	defer LeaveCaseDir(dir)

	k := 0
	if cs.PreFiles > 0 {
		base, version, ok := subjectFailFile(cs.Cfg.Name)
		if ok {
			for i := 0; i < cs.PreFiles; i++ {
				writeFailFile(strings.TrimSuffix(base, ".fail")+fmt.Sprintf("-pre%d.fail", i), version, 7, make([]uint64, 4+8*i), "pre-seeded")
				k++
			}
		}
	}

	neverRejects := true
	for _, st := range allStmts(cs.Prog.Body) {
		if st.Op == "repeat" || (st.Op == "draw" && !st.Gen.NeverRejects()) {
			neverRejects = false
		}
	}
	x := NewInterp(cs.Prog)
	obs := RunCheck(cs.Cfg, x.Prop)
	x.Finish()
	rep := ParseReport(obs)
	N := cs.Cfg.Checks

	if obs.Escaped != nil {
		out.Viol = violf("C09:panic-escaped", "panic escaped Check: %v", obs.Escaped)
		return out
	}
	if cs.Heavy {
		out.Classes = append(out.Classes, "heavy-run(millions-of-words)")
	}
	if cs.NoDraw {
		out.Classes = append(out.Classes, "draw-free-or-late-drawing-property")
	}
	if cs.Hosted && cs.PreFiles == 0 {
		// the same run through MakeCheck on a real *testing.T: same seed, same flags, so the same invocations and
		// the same verdict (the shards run with -test.timeout 0: that T has no deadline)
		cfg2 := cs.Cfg
		cfg2.Verbose, cfg2.NoFailFile = false, true
		x2 := NewInterp(cs.Prog)
		applyCfg(cfg2)
		res := Hosted(func(t *testing.T) { rapid.MakeCheck(x2.Prop)(t) })
		resetFlags()
		x2.Finish()
		out.Classes = append(out.Classes, "also-through-MakeCheck")
		if res.Panicked != nil {
			out.Viol = violf("C09:panic-escaped", "panic escaped MakeCheck: %v", res.Panicked)
			return out
		}
		if (res.Status == "failed") != obs.Failed {
			out.Viol = violf("C09:makecheck-differs", "Check on a TB of our own: failed=%v; MakeCheck on a *testing.T with the same seed and flags: %s", obs.Failed, res.Status)
			return out
		}
		if !cs.Cfg.Verbose && !obs.Failed && len(x2.Log) != len(x.Log) {
			out.Viol = violf("C09:makecheck-differs", "Check on a TB of our own invoked the property %d times; MakeCheck on a *testing.T with the same seed and flags %d times (N=%d)", len(x.Log), len(x2.Log), N)
			return out
		}
	}

	// replay invocations come first; if one of them is falsified the run fails from the fail file (not this
	// property's business)
	if len(x.Log) < k {
		if len(x.Log) > 0 || N > 0 {
			out.Viol = violf("C09:failfile-not-replayed", "%d usable fail files but only %d invocations", k, len(x.Log))
			return out
		}
	}
	for i := 0; i < k && i < len(x.Log); i++ {
		if x.Log[i].Falsified {
			// the run has to end here: failure, FailNow, at most the reproduction and the final replay afterwards,
			// and no fresh random test case
			out.Classes = append(out.Classes, "prefile-falsified")
			out.NonTrivial = true
			if !obs.Failed || !obs.FailNow {
				out.Viol = violf("C09:failfile-falsification-ignored", "the test case replayed from pre-seeded fail file %d falsified the property, but the test was not failed and stopped (failed=%v, FailNow=%v, report %q)", i, obs.Failed, obs.FailNow, rep.Kind)
				return out
			}
			if len(x.Log) > i+3 || obs.CountLog("[rapid] test #") > 0 {
				out.Viol = violf("C09:fresh-case-after-failure", "the test case replayed from pre-seeded fail file %d falsified the property, but %d more invocations followed", i, len(x.Log)-i-1)
				return out
			}
			return out
		}
	}
	if k > 0 {
		out.Classes = append(out.Classes, "prefiles")
	}

	valid, skipped, firstFail := 0, 0, -1
	i := k
	for ; i < len(x.Log); i++ {
		if valid >= N || skipped >= 10*N {
			break
		}
		inv := x.Log[i]
		if inv.Falsified {
			firstFail = i
			break
		}
		switch inv.End {
		case "pass":
			valid++
		default:
			skipped++
			if inv.End == "lib" && neverRejects {
				// the library declared the test case invalid, but nothing in it can be: no Skip, no filter, no
				// distinctness or length limit. Whether a test case counts is decided by that test case alone.
				out.Viol = violf("C09:valid-case-not-counted", "N=%d: random test case %d was rejected by the library as invalid although the property only draws from generators that accept every bitstream (%d invocations so far, %d counted as valid)", N, i-k, i, valid)
				return out
			}
		}
	}

	if firstFail >= 0 {
		out.Classes = append(out.Classes, "failing")
		out.NonTrivial = skipped > 0 && valid > 0
		if !obs.Failed {
			out.Viol = violf("C09:falsified-but-passed", "test case %d falsified the property but the test did not fail", firstFail-k)
			return out
		}
		if !obs.FailNow {
			out.Viol = violf("C09:no-failnow", "failed Check did not stop the enclosing test (FailNow not called)")
			return out
		}
		if cs.Cfg.Verbose {
			starts := obs.CountLog("[rapid] test #") // start + OK/invalid/failed lines
			startLines := 0
			for _, m := range obs.Msgs {
				if strings.HasPrefix(m.Text, "[rapid] test #") && strings.Contains(m.Text, " start ") {
					startLines++
				}
			}
			_ = starts
			if startLines != firstFail-k+1 {
				out.Viol = violf("C09:fresh-case-after-failure", "first falsified random case is #%d but %d fresh cases were started", firstFail-k+1, startLines)
				return out
			}
		}
		return out
	}

	// never falsified: the loop must have ended exactly at the budget
	if i != len(x.Log) {
		out.Viol = violf("C09:too-many-invocations", "N=%d: budget reached after %d random invocations (valid %d, skipped %d) but the property was invoked %d times", N, i-k, valid, skipped, len(x.Log)-k)
		return out
	}
	if valid < N && skipped < 10*N {
		out.Viol = violf("C09:too-few-invocations", "N=%d: Check stopped after valid=%d skipped=%d", N, valid, skipped)
		return out
	}
	out.NonTrivial = (skipped > 0 && valid > 0) || (valid < N) || (cs.NoDraw && N >= 2)
	if valid == N {
		out.Classes = append(out.Classes, "enough-valid")
		if obs.Failed {
			out.Viol = violf("C09:failed-although-enough", "N=%d valid cases ran and none was falsified, but the test failed: %s", N, rep.Kind+" "+rep.Msg)
			return out
		}
		if rep.OKPassed != N {
			out.Viol = violf("C09:wrong-ok-count", "N=%d valid cases ran but the OK line reports %d", N, rep.OKPassed)
			return out
		}
	} else {
		out.Classes = append(out.Classes, "budget-exhausted")
		if !obs.Failed {
			out.Viol = violf("C09:vacuous-pass", "N=%d: only %d valid cases in %d but the test passed", N, valid, valid+skipped)
			return out
		}
		if rep.Kind != "only" {
			out.Viol = violf("C09:wrong-error", "N=%d: only %d valid cases; expected an 'only generated' error, got %q %q", N, valid, rep.Kind, rep.Msg)
			return out
		}
		if rep.OnlyValid != valid || rep.OnlyTotal != valid+skipped {
			out.Viol = violf("C09:wrong-only-counts", "'only generated %d valid tests from %d total' but the harness counted %d valid, %d total", rep.OnlyValid, rep.OnlyTotal, valid, valid+skipped)
			return out
		}
		if !obs.FailNow {
			out.Viol = violf("C09:no-failnow", "failed Check did not stop the enclosing test (FailNow not called)")
			return out
		}
	}
	if skipped > 0 {
		out.Classes = append(out.Classes, "some-skipped")
	}
	return out
}
