package vh

import (
	"encoding/binary"
	"encoding/json"
	"flag"
	"fmt"
	"hash/fnv"
	"os"
	"path/filepath"
	"sort"
	"strconv"
	"strings"
	"sync"
	"time"

	"vh/drv"
)

// Ctx is what a property check gets for one shard.
type Ctx struct {
	Tier   string // quick | thorough
	Seed   uint64 // VERIF_SEED remapped to != 0
	Shard  int
	Shards int
	Stats  *Stats
	Known  map[string]string // open known findings of this property: key -> what
	Replay bool
}

func (c *Ctx) Thorough() bool { return c.Tier == "thorough" }

// Pick returns q for the quick tier and t for the thorough tier.
func (c *Ctx) Pick(q, t int) int {
	if c.Thorough() {
		return t
	}
	return q
}

// Violation is an oracle failure with its root-cause key (DESIGN.md 2.5).
type Violation struct {
	Key string `json:"key"`
	Msg string `json:"msg"`
}

func violf(key, format string, args ...any) *Violation {
	return &Violation{Key: key, Msg: fmt.Sprintf(format, args...)}
}

// Outcome of running the oracle on one case.
type Outcome struct {
	Viol       *Violation
	NonTrivial bool
	Classes    []string
}

// Property is a check driven by the outer property-based tester.
type Property interface {
	ID() string
	Cases(c *Ctx) int           // driver cases for this shard
	Gen(dt *drv.T, c *Ctx) any  // generate a case (JSON-serialisable)
	NewCase() any               // pointer to an empty case, for replay
	Run(c *Ctx, cs any) Outcome // run the oracle on one case
}

// Looper is implemented by checks that own their loop (enumerations, statistics, fault injection).
type Looper interface {
	Loop(c *Ctx)
}

var registry = map[string]Property{}

func register(p Property) { registry[p.ID()] = p }

// Stats is what a shard reports.
type Stats struct {
	ID          string            `json:"id"`
	Shard       int               `json:"shard"`
	Evaluations int64             `json:"evaluations"`
	NonTrivial  int64             `json:"nontrivial"`
	Classes     map[string]int64  `json:"classes"`
	Samples     []json.RawMessage `json:"samples"`
	Violations  []ViolRec         `json:"violations"`
	KnownHits   map[string]int64  `json:"known_hits"`
	Excluded    int64             `json:"excluded_known"`
	Extra       map[string]any    `json:"extra,omitempty"`
	WallS       float64           `json:"wall_s"`
	DriverMsg   string            `json:"driver_msg,omitempty"`
	Exhaustive  bool              `json:"exhaustive,omitempty"`

	hashes      map[uint64]struct{}
	trivSamples int
}

type ViolRec struct {
	Key    string `json:"key"`
	Msg    string `json:"msg"`
	Replay string `json:"replay"`
}

func newStats(id string, shard int) *Stats {
	return &Stats{ID: id, Shard: shard, Classes: map[string]int64{}, KnownHits: map[string]int64{}, Extra: map[string]any{}, hashes: map[uint64]struct{}{}}
}

func caseJSON(cs any) []byte {
	b, err := json.Marshal(cs)
	if err != nil {
		panic(fmt.Sprintf("harness: case not serialisable: %v", err))
	}
	return b
}

func hash64(b []byte) uint64 {
	h := fnv.New64a()
	h.Write(b)
	return h.Sum64()
}

// Add records one executed case.
func (s *Stats) Add(cs any, out Outcome) {
	s.Evaluations++
	for _, c := range out.Classes {
		s.Classes[c]++
	}
	var js []byte
	if out.NonTrivial {
		js = caseJSON(cs)
		s.NonTrivial++
		s.hashes[hash64(js)] = struct{}{}
		if len(s.Samples)-s.trivSamples < 3 && len(js) < 6000 {
			s.Samples = append(s.Samples, js)
		}
	} else if s.trivSamples < 1 {
		js = caseJSON(cs)
		if len(js) < 6000 {
			s.trivSamples++
			s.Samples = append(s.Samples, js)
		}
	}
}

// AddRaw records an executed case given directly as (hash, sample).
func (s *Stats) AddRaw(h uint64, nontrivial bool, sample any, classes ...string) {
	s.Evaluations++
	for _, c := range classes {
		s.Classes[c]++
	}
	if nontrivial {
		s.NonTrivial++
		s.hashes[h] = struct{}{}
		if len(s.Samples) < 4 && sample != nil {
			s.Samples = append(s.Samples, caseJSON(sample))
		}
	}
}

func replayDir() string {
	d := os.Getenv("VERIF_REPLAYS")
	if d == "" {
		d = filepath.Join(os.TempDir(), "vh-replays")
	}
	_ = os.MkdirAll(d, 0o775)
	return d
}

// ReplayFile is the on-disk form of a violating case.
type ReplayFile struct {
	Property string          `json:"property"`
	Key      string          `json:"key"`
	Msg      string          `json:"msg"`
	Case     json.RawMessage `json:"case"`
}

func (s *Stats) recordViolation(id string, shard int, cs any, v *Violation) {
	js := caseJSON(cs)
	path := filepath.Join(replayDir(), fmt.Sprintf("%s-s%d-%s.json", id, shard, sanitizeKey(v.Key)))
	write := true
	if old, err := os.ReadFile(path); err == nil {
		var rf ReplayFile
		if json.Unmarshal(old, &rf) == nil && len(rf.Case) > 0 && len(rf.Case) <= len(js) {
			write = false
		}
	}
	if write {
		b, _ := json.MarshalIndent(ReplayFile{Property: id, Key: v.Key, Msg: v.Msg, Case: js}, "", " ")
		_ = os.WriteFile(path, b, 0o664)
	}
	for i := range s.Violations {
		if s.Violations[i].Key == v.Key {
			if write {
				s.Violations[i].Msg = v.Msg
			}
			return
		}
	}
	s.Violations = append(s.Violations, ViolRec{Key: v.Key, Msg: v.Msg, Replay: path})
}

func sanitizeKey(k string) string {
	var b strings.Builder
	for _, r := range k {
		if r >= 'a' && r <= 'z' || r >= 'A' && r <= 'Z' || r >= '0' && r <= '9' || r == '-' || r == '_' || r == '.' {
			b.WriteRune(r)
		} else {
			b.WriteByte('_')
		}
	}
	s := b.String()
	if len(s) > 80 {
		s = s[:80]
	}
	return s
}

// Report handles an oracle failure outside the driver loop (Looper checks): known findings are counted,
// anything else is recorded as a violation with its replay file.
func (c *Ctx) Report(id string, cs any, v *Violation) {
	if what, ok := c.Known[v.Key]; ok {
		_ = what
		c.Stats.KnownHits[v.Key]++
		return
	}
	c.Stats.recordViolation(id, c.Shard, cs, v)
}

func (s *Stats) write(path string) {
	// hashes go to a side file (binary little-endian uint64), the orchestrator takes the union over shards
	hs := make([]uint64, 0, len(s.hashes))
	for h := range s.hashes {
		hs = append(hs, h)
	}
	sort.Slice(hs, func(i, j int) bool { return hs[i] < hs[j] })
	buf := make([]byte, 8*len(hs))
	for i, h := range hs {
		binary.LittleEndian.PutUint64(buf[8*i:], h)
	}
	if err := os.WriteFile(path+".hashes", buf, 0o664); err != nil {
		panic(err)
	}
	b, err := json.Marshal(s)
	if err != nil {
		panic(err)
	}
	if err := os.WriteFile(path+".tmp", b, 0o664); err != nil {
		panic(err)
	}
	if err := os.Rename(path+".tmp", path); err != nil {
		panic(err)
	}
}

func envInt(name string, def int) int {
	if v := os.Getenv(name); v != "" {
		if n, err := strconv.Atoi(v); err == nil {
			return n
		}
	}
	return def
}

func loadKnown(id string) map[string]string {
	out := map[string]string{}
	path := os.Getenv("VERIF_KNOWN")
	if path == "" {
		return out
	}
	b, err := os.ReadFile(path)
	if err != nil {
		return out
	}
	var kf struct {
		Findings []struct {
			Property string `json:"property"`
			Key      string `json:"key"`
			Status   string `json:"status"`
			What     string `json:"what"`
		} `json:"findings"`
	}
	if json.Unmarshal(b, &kf) != nil {
		return out
	}
	for _, f := range kf.Findings {
		if f.Property == id && f.Status == "open" {
			out[f.Key] = f.What
		}
	}
	return out
}

func shardSeed(seed uint64, shard int) uint64 {
	// splitmix64 step so that neighbouring VERIF_SEED values and shards give unrelated driver seeds
	z := seed + uint64(shard+1)*0x9e3779b97f4a7c15
	z = (z ^ (z >> 30)) * 0xbf58476d1ce4e5b9
	z = (z ^ (z >> 27)) * 0x94d049bb133111eb
	z ^= z >> 31
	if z == 0 {
		z = 1
	}
	return z
}

// RunShardFromEnv is the entry point used by TestShard.
func RunShardFromEnv() (ok bool) {
	id := os.Getenv("VERIF_PROP")
	p := registry[id]
	if p == nil {
		fmt.Fprintf(os.Stderr, "harness: unknown property %q\n", id)
		return false
	}
	seed, _ := strconv.ParseUint(os.Getenv("VERIF_SEED"), 10, 64)
	if seed == 0 {
		seed = 0x5eed5eed
	}
	c := &Ctx{
		Tier:   os.Getenv("VERIF_TIER"),
		Seed:   seed,
		Shard:  envInt("VERIF_SHARD", 0),
		Shards: envInt("VERIF_SHARDS", 1),
		Known:  loadKnown(id),
	}
	if c.Tier == "" {
		c.Tier = "quick"
	}
	c.Stats = newStats(id, c.Shard)
	initWork()
	defer os.RemoveAll(workRoot)
	start := time.Now()

	if rp := os.Getenv("VERIF_REPLAY"); rp != "" {
		c.Replay = true
		return replayOne(p, c, rp)
	}

	if lim, ok := p.(interface{ HangLimit() time.Duration }); ok {
		d := lim.HangLimit()
		if v := envInt("VERIF_HANG_LIMIT", 0); v > 0 {
			d = time.Duration(v) * time.Second
		}
		go watchdog(p.ID(), c, d)
	}
	if lp, isLooper := p.(Looper); isLooper {
		lp.Loop(c)
	} else {
		driveProperty(p, c)
	}
	c.Stats.WallS = time.Since(start).Seconds()
	c.Stats.write(os.Getenv("VERIF_OUT"))
	return true
}

func driveProperty(p Property, c *Ctx) {
	n := p.Cases(c)
	if mul := os.Getenv("VERIF_CASEMUL"); mul != "" {
		if f, err := strconv.ParseFloat(mul, 64); err == nil {
			n = int(float64(n)*f) + 1
		}
	}
	_ = flag.Set("drv.checks", strconv.Itoa(n))
	_ = flag.Set("drv.seed", strconv.FormatUint(shardSeed(c.Seed, c.Shard), 10))
	_ = flag.Set("drv.nofailfile", "true")
	_ = flag.Set("drv.shrinktime", "25s")
	_ = flag.Set("drv.steps", "30")
	tb := NewFakeTB("drv-" + p.ID())
	func() {
		defer func() {
			if r := recover(); r != nil {
				if _, isStop := r.(tbStop); !isStop {
					panic(r)
				}
			}
		}()
		drv.Check(tb, func(dt *drv.T) {
			cs := p.Gen(dt, c)
			watchSet(cs)
			out := p.Run(c, cs)
			watchSet(nil)
			if out.Viol != nil {
				if _, known := c.Known[out.Viol.Key]; known {
					c.Stats.KnownHits[out.Viol.Key]++
					c.Stats.Excluded++
					out.Viol = nil
				}
			}
			c.Stats.Add(cs, out)
			if out.Viol != nil {
				c.Stats.recordViolation(p.ID(), c.Shard, cs, out.Viol)
				dt.Fatalf("violation %s: %s", out.Viol.Key, out.Viol.Msg)
			}
		})
	}()
	msgs, failed, _, _ := tb.Snapshot()
	if failed {
		for _, m := range msgs {
			if m.Kind == "Errorf" {
				c.Stats.DriverMsg = m.Text
				if len(c.Stats.DriverMsg) > 2000 {
					c.Stats.DriverMsg = c.Stats.DriverMsg[:2000]
				}
				break
			}
		}
		if len(c.Stats.Violations) == 0 {
			// the driver failed for a reason that is not an oracle failure (e.g. could not generate cases):
			// that is harness trouble, never a verdict
			c.Stats.Extra["driver_trouble"] = c.Stats.DriverMsg
		}
	}
}

func replayOne(p Property, c *Ctx, path string) bool {
	b, err := os.ReadFile(path)
	if err != nil {
		fmt.Fprintf(os.Stderr, "harness: %v\n", err)
		return false
	}
	var rf ReplayFile
	if err := json.Unmarshal(b, &rf); err != nil {
		fmt.Fprintf(os.Stderr, "harness: %v\n", err)
		return false
	}
	cs := p.NewCase()
	if err := json.Unmarshal(rf.Case, cs); err != nil {
		fmt.Fprintf(os.Stderr, "harness: %v\n", err)
		return false
	}
	if lim, ok := p.(interface{ HangLimit() time.Duration }); ok {
		// a replayed case can loop like any other: without this the orchestrator's timeout would be the only way out,
		// and a hang could not be told from trouble
		d := lim.HangLimit()
		if v := envInt("VERIF_HANG_LIMIT", 0); v > 0 {
			d = time.Duration(v) * time.Second
		}
		go func() {
			time.Sleep(d)
			jb, _ := json.Marshal(map[string]any{"property": p.ID(), "violated": true, "key": p.ID() + ":hang",
				"msg": fmt.Sprintf("the replayed case did not finish within %v: the library loops", d)})
			_ = os.WriteFile(os.Getenv("VERIF_OUT"), jb, 0o664)
			os.Exit(0)
		}()
	}
	var out Outcome
	if rp, ok := p.(interface{ RunReplay(c *Ctx, cs any) Outcome }); ok {
		out = rp.RunReplay(c, cs)
	} else {
		out = p.Run(c, cs)
	}
	res := map[string]any{"property": p.ID(), "violated": out.Viol != nil}
	if out.Viol != nil {
		res["key"] = out.Viol.Key
		res["msg"] = out.Viol.Msg
		_, res["known"] = c.Known[out.Viol.Key]
	}
	jb, _ := json.Marshal(res)
	_ = os.WriteFile(os.Getenv("VERIF_OUT"), jb, 0o664)
	return true
}

// ---- hang watchdog -----------------------------------------------------------------------------------
// The library calls nothing of ours while it spins, so "loops forever" can only be seen with a clock. The
// limit is orders of magnitude above the normal duration of a case.

var (
	watchMu    sync.Mutex
	watchCase  any
	watchSince time.Time
)

func watchSet(cs any) {
	watchMu.Lock()
	watchCase, watchSince = cs, time.Now()
	watchMu.Unlock()
}

func watchdog(id string, c *Ctx, limit time.Duration) {
	for {
		time.Sleep(time.Second)
		watchMu.Lock()
		cs, since := watchCase, watchSince
		watchMu.Unlock()
		if cs != nil && time.Since(since) > limit {
			c.Stats.recordViolation(id, c.Shard, cs, violf(id+":hang", "one case did not finish within %v (typical: microseconds to milliseconds): the library loops", limit))
			c.Stats.write(os.Getenv("VERIF_OUT"))
			os.Exit(0)
		}
	}
}
