package vh

import (
	"bufio"
	"encoding/binary"
	"flag"
	"fmt"
	"os"
	"path/filepath"
	"regexp"
	"runtime/debug"
	"sort"
	"strconv"
	"strings"
	"sync/atomic"
	"time"

	"pgregory.net/rapid"
)

// CheckCfg is the configuration of one rapid.Check call: the public flags plus the TB name.
type CheckCfg struct {
	Name       string `json:"name"`
	Seed       uint64 `json:"seed"` // 0: no -rapid.seed
	Checks     int    `json:"checks"`
	Steps      int    `json:"steps,omitempty"`
	ShrinkNS   int64  `json:"shrink_ns"` // -rapid.shrinktime; <0: library default
	NoFailFile bool   `json:"nofailfile,omitempty"`
	Verbose    bool   `json:"verbose,omitempty"`
	Debug      bool   `json:"debug,omitempty"` // -rapid.debug
	Log        bool   `json:"log,omitempty"`   // -rapid.log: eager output to stdout (the shards' stdout is discarded)
	FailFile   string `json:"failfile,omitempty"`
	DebugVis   bool   `json:"debugvis,omitempty"`
}

// Obs is what the harness observed of one rapid.Check call from outside.
type Obs struct {
	Msgs    []TBMsg
	Failed  bool
	FailNow bool
	Skipped bool
	Escaped any // a panic that escaped rapid.Check (not the FakeTB sentinel)
	Dur     time.Duration
}

func setFlag(name, val string) {
	if err := flag.Set(name, val); err != nil {
		panic(fmt.Sprintf("harness: flag %s: %v", name, err))
	}
}

func applyCfg(cfg CheckCfg) {
	setFlag("rapid.checks", strconv.Itoa(cfg.Checks))
	steps := cfg.Steps
	if steps == 0 {
		steps = 30
	}
	if steps < 0 {
		steps = 0 // Steps: -1 asks for -rapid.steps=0
	}
	setFlag("rapid.steps", strconv.Itoa(steps))
	setFlag("rapid.seed", strconv.FormatUint(cfg.Seed, 10))
	if cfg.ShrinkNS >= 0 {
		setFlag("rapid.shrinktime", time.Duration(cfg.ShrinkNS).String())
	} else {
		setFlag("rapid.shrinktime", "30s")
	}
	setFlag("rapid.nofailfile", strconv.FormatBool(cfg.NoFailFile))
	setFlag("rapid.v", strconv.FormatBool(cfg.Verbose))
	setFlag("rapid.log", strconv.FormatBool(cfg.Log))
	setFlag("rapid.debug", strconv.FormatBool(cfg.Debug))
	setFlag("rapid.failfile", cfg.FailFile)
	setFlag("rapid.debugvis", strconv.FormatBool(cfg.DebugVis))
}

func resetFlags() {
	applyCfg(CheckCfg{Checks: 100, Steps: 30, ShrinkNS: -1})
}

// RunCheck calls rapid.Check(faketb, prop) under cfg in the current working directory.
func RunCheck(cfg CheckCfg, prop func(*rapid.T)) *Obs {
	obs := &Obs{}
	defer resetFlags()
	if rejected := tryApplyCfg(cfg); rejected != "" {
		// a value of the documented flag domain that the library refuses: the user cannot even ask for this run
		obs.Escaped = "flag rejected: " + rejected
		return obs
	}
	tb := NewFakeTB(cfg.Name)
	start := time.Now()
	func() {
		defer func() {
			if r := recover(); r != nil {
				if _, ok := r.(tbStop); !ok {
					obs.Escaped = fmt.Sprintf("%v\n%s", r, trimStack(debug.Stack()))
				}
			}
		}()
		rapid.Check(tb, prop)
	}()
	obs.Dur = time.Since(start)
	obs.Msgs, obs.Failed, obs.FailNow, obs.Skipped = tb.Snapshot()
	return obs
}

// RunCheckGo is RunCheck on a goroutine of its own; Goexited tells that this goroutine was ended by
// runtime.Goexit before rapid.Check returned (user code called FailNow / SkipNow of a real *testing.T).
func RunCheckGo(cfg CheckCfg, prop func(*rapid.T)) (obs *Obs, goexited bool) {
	done := make(chan struct{})
	returned := false
	go func() {
		defer close(done)
		obs = RunCheck(cfg, prop)
		returned = true
	}()
	<-done
	if !returned {
		resetFlags()
		return &Obs{}, true
	}
	return obs, false
}

// ---- scratch directories -------------------------------------------------------------------------------

var (
	workRoot   string
	origWD     string
	caseDirSeq int64
)

func initWork() {
	origWD, _ = os.Getwd()
	root := os.Getenv("VERIF_WORK")
	if root == "" {
		root = filepath.Join(os.TempDir(), "vh-work")
	}
	workRoot = filepath.Join(root, fmt.Sprintf("p%d", os.Getpid()))
	if err := os.MkdirAll(workRoot, 0o775); err != nil {
		panic(err)
	}
}

// EnterCaseDir creates a fresh scratch directory and makes it the working directory.
func EnterCaseDir() string {
	dir := filepath.Join(workRoot, fmt.Sprintf("c%d", atomic.AddInt64(&caseDirSeq, 1)))
	if err := os.MkdirAll(dir, 0o775); err != nil {
		panic(err)
	}
	if err := os.Chdir(dir); err != nil {
		panic(err)
	}
	return dir
}

// LeaveCaseDir goes back to a neutral directory and removes dir.
func LeaveCaseDir(dir string) {
	_ = os.Chdir(workRoot)
	_ = os.RemoveAll(dir)
}

// FailFiles lists the files below testdata/rapid of the current directory that end in ".fail".
func FailFiles() []string {
	var out []string
	_ = filepath.Walk(filepath.Join("testdata", "rapid"), func(p string, info os.FileInfo, err error) error {
		if err == nil && !info.IsDir() && strings.HasSuffix(p, ".fail") {
			out = append(out, p)
		}
		return nil
	})
	sort.Strings(out)
	return out
}

// AllFiles lists every file below testdata/rapid.
func AllFiles() []string {
	var out []string
	_ = filepath.Walk(filepath.Join("testdata", "rapid"), func(p string, info os.FileInfo, err error) error {
		if err == nil && !info.IsDir() {
			out = append(out, p)
		}
		return nil
	})
	sort.Strings(out)
	return out
}

// ParseFailFile reads a fail file by its documented format, independently of the library: lines starting
// with '#' are comments, the first other line is "<version>#<seed>", every further line is one word.
func ParseFailFile(path string) (version string, seed uint64, words []uint64, err error) {
	f, err := os.Open(path)
	if err != nil {
		return "", 0, nil, err
	}
	defer f.Close()
	r := bufio.NewReaderSize(f, 1<<16)
	first := true
	for {
		line, rerr := r.ReadString('\n')
		s := strings.TrimSpace(line)
		if s != "" && !strings.HasPrefix(s, "#") {
			if first {
				first = false
				parts := strings.Split(s, "#")
				if len(parts) != 2 {
					return "", 0, nil, fmt.Errorf("bad header %q", s)
				}
				version = parts[0]
				seed, err = strconv.ParseUint(parts[1], 10, 64)
				if err != nil {
					return "", 0, nil, fmt.Errorf("bad seed in %q", s)
				}
			} else {
				u, perr := strconv.ParseUint(s, 0, 64)
				if perr != nil {
					return "", 0, nil, fmt.Errorf("bad word %q", s)
				}
				words = append(words, u)
			}
		}
		if rerr != nil {
			break
		}
	}
	if first {
		return "", 0, nil, fmt.Errorf("no data")
	}
	return version, seed, words, nil
}

// WordsToBytes encodes words as MakeFuzz input (little-endian).
func WordsToBytes(words []uint64) []byte {
	b := make([]byte, 8*len(words))
	for i, w := range words {
		binary.LittleEndian.PutUint64(b[8*i:], w)
	}
	return b
}

// ---- parsing of the library's failure report -----------------------------------------------------------

var (
	reFailed = regexp.MustCompile(`(?s)^\[rapid\] (failed|panic) after (\d+) tests: (.*?)\nTo reproduce, specify -run="(.*?)" (.*?)\n`)
	reFlaky  = regexp.MustCompile(`(?s)^\[rapid\] flaky test`)
	reSeed   = regexp.MustCompile(`-rapid\.seed=(\d+)`)
	reFFile  = regexp.MustCompile(`-rapid\.failfile="((?:[^"\\]|\\.)*)"`)
	reOnly   = regexp.MustCompile(`^\[rapid\] only generated (\d+) valid tests from (\d+) total`)
	reOK     = regexp.MustCompile(`^\[rapid\] OK, passed (\d+) tests`)
	reDraw   = regexp.MustCompile(`(?s)^\[rapid\] draw (.*?): (.*)$`)
)

// Report is the parsed failure report of a Check.
type Report struct {
	Kind      string // "", failed, panic, flaky, only
	After     int
	Msg       string
	Repro     string
	Seed      uint64
	HasSeed   bool
	FailFile  string
	ErrSeq    int64 // sequence number of the Errorf that carried the report
	OKPassed  int   // -1 if no OK line
	OnlyValid int
	OnlyTotal int
	DrawLines [][2]string // label, value text of "[rapid] draw" lines logged after the report
	ErrorfN   int         // number of Errorf/Error/Fatal calls on the TB
}

func ParseReport(obs *Obs) *Report {
	r := &Report{OKPassed: -1}
	for _, m := range obs.Msgs {
		switch m.Kind {
		case "Errorf", "Error", "Fatalf", "Fatal":
			r.ErrorfN++
			if r.Kind != "" {
				continue
			}
			if mm := reFailed.FindStringSubmatch(m.Text); mm != nil {
				r.Kind = mm[1]
				r.After, _ = strconv.Atoi(mm[2])
				r.Msg = mm[3]
				r.Repro = mm[5]
				r.ErrSeq = m.Seq
			} else if reFlaky.MatchString(m.Text) {
				r.Kind = "flaky"
				r.Repro = m.Text
				r.ErrSeq = m.Seq
			} else if mm := reOnly.FindStringSubmatch(m.Text); mm != nil {
				r.Kind = "only"
				r.OnlyValid, _ = strconv.Atoi(mm[1])
				r.OnlyTotal, _ = strconv.Atoi(mm[2])
				r.ErrSeq = m.Seq
			} else {
				r.Kind = "other"
				r.Msg = m.Text
				r.ErrSeq = m.Seq
			}
			if r.Repro != "" {
				if sm := reSeed.FindStringSubmatch(r.Repro); sm != nil {
					r.Seed, _ = strconv.ParseUint(sm[1], 10, 64)
					r.HasSeed = true
				}
				if fm := reFFile.FindStringSubmatch(r.Repro); fm != nil {
					if uq, err := strconv.Unquote(`"` + fm[1] + `"`); err == nil {
						r.FailFile = uq
					}
				}
			}
		case "Logf", "Log":
			if mm := reOK.FindStringSubmatch(m.Text); mm != nil {
				r.OKPassed, _ = strconv.Atoi(mm[1])
			}
			if r.Kind != "" && r.Kind != "only" && m.Seq > r.ErrSeq {
				if mm := reDraw.FindStringSubmatch(m.Text); mm != nil {
					r.DrawLines = append(r.DrawLines, [2]string{mm[1], mm[2]})
				}
			}
		}
	}
	return r
}

// HasLog reports whether any TB log message contains sub.
func (o *Obs) HasLog(sub string) bool {
	for _, m := range o.Msgs {
		if strings.Contains(m.Text, sub) {
			return true
		}
	}
	return false
}

func (o *Obs) CountLog(sub string) int {
	n := 0
	for _, m := range o.Msgs {
		if strings.Contains(m.Text, sub) {
			n++
		}
	}
	return n
}

func removeFile(p string) error { return os.Remove(p) }

// plentyNS is a -rapid.shrinktime that minimization of the small generated programs never reaches, so that
// runs which are compared with each other are not cut at load-dependent points.
const plentyNS = int64(60e9)

// trimStack keeps the part of a stack dump that lies inside the library under test.
func trimStack(b []byte) string {
	lines := strings.Split(string(b), "\n")
	var out []string
	for i := 0; i+1 < len(lines); i++ {
		if strings.HasPrefix(lines[i], "pgregory.net/rapid.") || strings.HasPrefix(lines[i], "panic(") {
			out = append(out, strings.TrimSpace(lines[i])+" "+strings.TrimSpace(lines[i+1]))
		}
		if len(out) > 14 {
			break
		}
	}
	return strings.Join(out, " | ")
}

func tryApplyCfg(cfg CheckCfg) (rejected string) {
	defer func() {
		if r := recover(); r != nil {
			rejected = fmt.Sprint(r)
		}
	}()
	applyCfg(cfg)
	return ""
}
