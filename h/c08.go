package vh

import (
	"fmt"
	"strings"
	"time"

	"vh/drv"
)

// C08 - state-machine runs follow the check/action discipline.

type C08Case struct {
	TwoRepeats bool       `json:"tworepeats,omitempty"` // two calls of Repeat per invocation, same action names, one with and one without invariant
	Case       *CheckCase `json:"case"`
	Stream     []uint64   `json:"stream,omitempty"` // run once through MakeFuzz on these words instead of Check
}

type c08 struct{}

func init() { register(c08{}) }

func (c08) ID() string               { return "C08" }
func (c08) NewCase() any             { return &C08Case{} }
func (c08) Cases(c *Ctx) int         { return c.Pick(1500, 30000) }
func (c08) HangLimit() time.Duration { return 300 * time.Second }

func genC08Action(dt *drv.T, i int, label *int) *Action {
	a := &Action{Name: fmt.Sprintf("a%d", i)}
	draw := func() *Stmt {
		*label++
		return &Stmt{Op: "draw", Label: fmt.Sprintf("d%d", *label), Gen: GenGenSpec(dt, GenCfg{Depth: 1, SmallInts: true, RejectHeavy: chance(dt, "rej", 25)})}
	}
	skip := func() *Stmt { return &Stmt{Op: "skip", Kind: pick(dt, "skipkind", skipKinds...)} }
	switch pick(dt, "ashape", "draw", "draw", "plain", "skipfirst", "skipafter", "condskip", "fatal", "nonfatal", "panic", "nonfatal+skip", "alwaysfail-draw", "fatal-recovered") {
	case "draw":
		a.Body = append(a.Body, draw())
		if chance(dt, "draw2", 30) {
			a.Body = append(a.Body, draw())
		}
	case "skipfirst":
		a.Body = append(a.Body, skip())
	case "skipafter":
		a.Body = append(a.Body, draw(), skip())
	case "condskip":
		a.Body = append(a.Body, draw(), &Stmt{Op: "if", Cond: genCond(dt), Body: []*Stmt{skip()}})
	case "fatal":
		a.Body = append(a.Body, draw(), &Stmt{Op: "if", Cond: genCond(dt), Body: []*Stmt{genSig(dt, fatalKinds)}})
	case "fatal-recovered":
		// Fatal / Fatalf / FailNow raised under a recover of the code under test (a safety net around a callback): the
		// action goes on and returns normally, but the test case has been falsified and nothing may run after it
		a.Body = append(a.Body, draw(), &Stmt{Op: "if", Cond: genCond(dt), Body: []*Stmt{{Op: "recovered", Body: []*Stmt{genSig(dt, fatalKinds)}}}}, &Stmt{Op: "log", N: 2})
	case "nonfatal":
		a.Body = append(a.Body, draw(), &Stmt{Op: "if", Cond: genCond(dt), Body: []*Stmt{genSig(dt, nonFatalKinds)}}, &Stmt{Op: "log", N: 2})
	case "panic":
		a.Body = append(a.Body, draw(), &Stmt{Op: "if", Cond: genCond(dt), Body: []*Stmt{genSig(dt, panicKinds)}})
	case "nonfatal+skip":
		// the failure is signalled, then the action declares itself not applicable: still a failure
		a.Body = append(a.Body, draw(), &Stmt{Op: "if", Cond: genCond(dt), Body: []*Stmt{genSig(dt, nonFatalKinds), skip()}})
	case "alwaysfail-draw":
		// the action's generator can never produce a value: the action is skipped by the library
		a.Body = append(a.Body, &Stmt{Op: "draw", Label: "never", Gen: &GenSpec{K: "filter", Fn: "never", Sub: []*GenSpec{{K: "bool"}}}})
	}
	return a
}

func (c08) Gen(dt *drv.T, c *Ctx) any {
	cs := &C08Case{Case: &CheckCase{}}
	label := 0
	p := &Prog{}
	if chance(dt, "predraw", 50) {
		label++
		p.Body = append(p.Body, &Stmt{Op: "draw", Label: "d1", Gen: &GenSpec{K: "int", IK: "Int", Mode: "range", SA: 0, SB: 100}})
	}
	rs := &Stmt{Op: "repeat"}
	na := drv.IntRange(1, 6).Draw(dt, "nactions")
	if chance(dt, "sm", 25) {
		rs.SM = pick(dt, "smtype", "A", "B")
		if na > 4 {
			na = 4
		}
	}
	names := actionNames(dt)
	for i := 0; i < na; i++ {
		a := genC08Action(dt, i, &label)
		if rs.SM == "" {
			a.Name = names[i]
		}
		rs.Actions = append(rs.Actions, a)
	}
	if chance(dt, "allskip", 6) {
		for _, a := range rs.Actions {
			a.Body = []*Stmt{{Op: "skip", Kind: "Skip"}}
		}
	}
	if chance(dt, "hasinv", 70) {
		rs.HasInv = true
		switch pick(dt, "invshape", "empty", "log", "failcond", "failcond", "nonfatalcond", "recoveredcond") {
		case "recoveredcond":
			rs.Inv = []*Stmt{{Op: "if", Cond: genCond(dt), Body: []*Stmt{{Op: "recovered", Body: []*Stmt{genSig(dt, fatalKinds)}}}}}
		case "log":
			rs.Inv = []*Stmt{{Op: "log", N: 3}}
		case "failcond":
			rs.Inv = []*Stmt{{Op: "if", Cond: genCond(dt), Body: []*Stmt{genSig(dt, append(append([]string{}, fatalKinds...), panicKinds...))}}}
		case "nonfatalcond":
			rs.Inv = []*Stmt{{Op: "if", Cond: genCond(dt), Body: []*Stmt{genSig(dt, nonFatalKinds)}}}
		}
	}
	rs.Shared = rs.SM == "" && chance(dt, "sharedmap", 30)
	p.Body = append(p.Body, rs)
	if rs.SM == "" && chance(dt, "tworepeats", 15) {
		// a second state machine in the same property, with the same action names but the other choice of invariant
		rs2 := &Stmt{Op: "repeat", Actions: rs.Actions, HasInv: !rs.HasInv}
		if rs2.HasInv {
			rs2.Inv = []*Stmt{{Op: "log", N: 2}}
		}
		if drv.Bool().Draw(dt, "secondfirst") {
			p.Body[len(p.Body)-1] = rs2
			p.Body = append(p.Body, rs)
		} else {
			p.Body = append(p.Body, rs2)
		}
		cs.TwoRepeats = true
	}
	if chance(dt, "postdraw", 30) {
		p.Body = append(p.Body, &Stmt{Op: "draw", Label: "after", Gen: &GenSpec{K: "bool"}})
	}
	cs.Case.Prog = p
	cs.Case.Cfg = genCheckCfg(dt, "TestC08", 40)
	cs.Case.Cfg.Steps = pick(dt, "steps", -1, 1, 1, 2, 5, 10, 30, 60) // -1: -rapid.steps=0
	cs.Case.Cfg.NoFailFile = true
	cs.Case.Cfg.ShrinkNS = pick(dt, "shrink", int64(0), 5e6, 1e8)
	if chance(dt, "viafuzz", 30) {
		cs.Stream = genStream(dt)
		if len(cs.Stream) < 8 {
			cs.Stream = append(cs.Stream, genStream(dt)...)
		}
	}
	return cs
}

// validateSM checks the event trace of one invocation against the discipline. It returns a violation key
// suffix and a description, or "".
func validateSM(inv *Invocation, hasInv bool) (string, string, string) {
	var trace strings.Builder
	state := "start"   // start | after-inv | after-action-ok | after-action-skip | in-action | in-inv
	failed := false    // a failure signal was raised: nothing new may start
	completed := false // an action completed since the last invariant
	for _, e := range inv.Events {
		switch e.K {
		case "bogus":
			return "non-action-called", fmt.Sprintf("method %s is not an action but was called", e.Name), trace.String()
		case "rstart":
			// another call of Repeat in the same invocation: what the previous call owed has to be settled, and this
			// call has its own set of functions
			if state != "start" || trace.Len() > 0 {
				if hasInv && state == "after-action-ok" && !failed {
					return "no-invariant-after-last-action", "Repeat returned after a completed action without running the invariant", trace.String()
				}
				trace.WriteString("| ")
			}
			state, hasInv = "start", e.ID == 1
		case "sig":
			failed = true
			trace.WriteString("! ")
		case "istart":
			trace.WriteString("I")
			if !hasInv {
				return "invariant-not-supplied", "an invariant ran during a call of Repeat that was not given one (it belongs to another call)", trace.String()
			}
			if !e.Normal {
				return "foreign-T", "the invariant was called with a different T", trace.String()
			}
			if failed {
				return "runs-after-failure", "the invariant ran after the test case was falsified", trace.String()
			}
			switch state {
			case "start", "after-action-ok":
			case "after-action-skip":
				return "invariant-after-skipped-action", "the invariant ran after an action that skipped", trace.String()
			case "after-inv":
				return "invariant-twice", "the invariant ran twice without a completed action in between", trace.String()
			default:
				return "nested", "the invariant ran while " + state, trace.String()
			}
			state = "in-inv"
		case "iend":
			if e.Normal {
				trace.WriteString(" ")
				state = "after-inv"
				completed = false
			} else {
				trace.WriteString("x ")
				state = "dead"
			}
		case "astart":
			trace.WriteString("A")
			if !e.Normal {
				return "foreign-T", "action " + e.Name + " was called with a different T", trace.String()
			}
			if failed {
				return "runs-after-failure", "action " + e.Name + " ran after the test case was falsified", trace.String()
			}
			switch state {
			case "start":
				if hasInv {
					return "action-before-initial-invariant", "action " + e.Name + " ran before the invariant had run once", trace.String()
				}
			case "after-inv", "after-action-skip":
			case "after-action-ok":
				if hasInv {
					return "no-invariant-after-action", "action " + e.Name + " ran right after a completed action, without the invariant in between", trace.String()
				}
			default:
				return "nested", "action " + e.Name + " ran while " + state, trace.String()
			}
			state = "in-action"
		case "aend":
			if e.Normal {
				trace.WriteString("+ ")
				state = "after-action-ok"
				completed = true
			} else {
				trace.WriteString("- ")
				state = "after-action-skip"
			}
		case "bleave":
			// the body is over; was an invariant owed?
			if e.Normal && hasInv && state == "after-action-ok" && !failed {
				return "no-invariant-after-last-action", "Repeat returned after a completed action without running the invariant", trace.String()
			}
			if e.Normal && hasInv && state == "start" {
				return "invariant-never-ran", "Repeat returned without running the invariant once", trace.String()
			}
		}
	}
	_ = completed
	return "", "", trace.String()
}

func (c08) Run(c *Ctx, csAny any) Outcome {
	cs := csAny.(*C08Case)
	out := Outcome{}
	dir := EnterCaseDir()
	defer LeaveCaseDir(dir)
	prog, cfg := cs.Case.Prog, cs.Case.Cfg
	var rs *Stmt
	for _, st := range prog.Body {
		if st.Op == "repeat" {
			rs = st
		}
	}
	x := NewInterp(prog)
	var viol *Violation
	nontrivial := false
	classes := map[string]bool{}
	if cs.TwoRepeats {
		classes["two-Repeat-calls-in-one-invocation"] = true
	}
	x.OnDone = func(inv *Invocation) {
		if viol != nil {
			return
		}
		key, msg, trace := validateSM(inv, rs.HasInv)
		if key != "" {
			viol = violf("C08:"+key, "%s; trace of invocation %d: %s", msg, inv.Idx, trace)
			return
		}
		if (inv.Actions >= 3 && inv.ASkips >= 1) || inv.Falsified {
			nontrivial = true
		}
		if inv.ASkips > 0 {
			classes["skipped-actions"] = true
		}
		if inv.NVA {
			classes["no-valid-action"] = true
		}
		if inv.Falsified {
			classes["falsified-invocation"] = true
		}
	}
	var failed bool
	failText := ""
	if cs.Stream != nil {
		res := RunFuzzCfg(cfg, x.Prop, WordsToBytes(cs.Stream))
		x.Finish()
		failed = res.Status == "failed"
		classes["via-makefuzz"] = true
		if res.Panicked != nil {
			out.Viol = violf("C08:panic-escaped", "a panic escaped MakeFuzz: %v", res.Panicked)
			return out
		}
	} else {
		obs := RunCheck(cfg, x.Prop)
		x.Finish()
		failed = obs.Failed
		if rep := ParseReport(obs); rep.Kind != "only" {
			failText = rep.Kind + " " + rep.Msg
		}
		if obs.Escaped != nil {
			out.Viol = violf("C08:panic-escaped", "a panic escaped rapid.Check: %v", obs.Escaped)
			return out
		}
	}
	if rs.Shared {
		classes["actions-map-reused-by-every-invocation"] = true
	}
	if rs.SM != "" {
		classes["StateMachineActions-"+rs.SM] = true
		if v := smDirect(rs.SM); v != nil && out.Viol == nil {
			out.Viol = v
			return out
		}
	}
	for k := range classes {
		out.Classes = append(out.Classes, k)
	}
	out.NonTrivial = nontrivial
	if x.Aborted != "" {
		out.Viol = violf("C08:loops-instead-of-failing", "%s", x.Aborted)
		return out
	}
	if viol != nil {
		out.Viol = viol
		return out
	}
	anyFalsified := false
	for _, inv := range x.Log {
		if inv.Falsified {
			anyFalsified = true
		}
	}
	if failed && !anyFalsified && (failText != "" || cs.Stream != nil) {
		out.Viol = violf("C08:failure-without-falsification", "the state machine run failed (%s) although no action or invariant signalled a failure and an action was always able to run", failText)
		return out
	}
	for _, inv := range x.Log {
		if inv.NVA && !failed {
			out.Viol = violf("C08:no-valid-action-not-reported", "no action was able to run in invocation %d but the test did not fail", inv.Idx)
			return out
		}
	}
	return out
}
