package vh

import (
	"encoding/json"
	"flag"
	"fmt"
	"os"
	"strconv"
	"strings"
	"testing"
)

var shardOK = true

func TestMain(m *testing.M) {
	if os.Getenv("VERIF_CHILD") != "" {
		childMain()
		return
	}
	if os.Getenv("VERIF_NATIVE_FUZZ") != "" {
		os.Exit(m.Run()) // native fuzzing: the testing package's verdict is the verdict
	}
	m.Run() // sub-tests hosted for the library under test may fail on purpose: the exit code is ours
	if os.Getenv("VERIF_PROP") == "" {
		os.Exit(0)
	}
	if !shardOK {
		os.Exit(3)
	}
	os.Exit(0)
}

// TestShard runs one shard of one property check (selected through the environment).
func TestShard(t *testing.T) {
	if os.Getenv("VERIF_PROP") == "" {
		t.Skip("no VERIF_PROP")
	}
	t.Parallel()
	defer close(hostCh)
	defer func() {
		if r := recover(); r != nil {
			shardOK = false
			fmt.Fprintf(os.Stderr, "harness: shard panicked: %v\n", r)
			panic(r)
		}
	}()
	if !RunShardFromEnv() {
		shardOK = false
	}
}

// TestHost runs sub-tests on behalf of the shard (MakeFuzz / MakeCheck need a real *testing.T).
func TestHost(t *testing.T) {
	if os.Getenv("VERIF_PROP") == "" {
		t.Skip("no VERIF_PROP")
	}
	t.Parallel()
	serveHost(t)
}

// TestHost2 is a second host, so that two hosted sub-tests can run at the same time (HostedPair).
func TestHost2(t *testing.T) {
	if os.Getenv("VERIF_PROP") == "" {
		t.Skip("no VERIF_PROP")
	}
	t.Parallel()
	serveHost(t)
}

func childMain() {
	flag.Parse() // TestMain runs before the testing flags are parsed; the library reads testing.Short()
	switch os.Getenv("VERIF_CHILD") {
	case "fresh":
		initWork()
		defer os.RemoveAll(workRoot)
		dir := EnterCaseDir()
		cases := firstCasesOpt(1, os.Getenv("VERIF_FRESH_STALE"))
		LeaveCaseDir(dir)
		if len(cases) > 0 {
			fmt.Println(cases[0])
		}
	case "example":
		var req struct {
			Spec  *GenSpec `json:"spec"`
			Seeds []int    `json:"seeds"`
		}
		if err := json.Unmarshal([]byte(os.Getenv("VERIF_CASE")), &req); err != nil {
			os.Exit(7)
		}
		env := &BuildEnv{}
		env.X = NewInterp(nil)
		g := req.Spec.Build(env)
		for _, s := range req.Seeds {
			fmt.Println(strings.ReplaceAll(exampleOf(g, s), "\n", "\\n"))
		}
	case "crash":
		crashChild()
	case "fuzzconv":
		if err := fuzzConv(os.Getenv("VERIF_FUZZ_TARGET"), os.Getenv("VERIF_FUZZ_FILE"), os.Getenv("VERIF_OUT")); err != nil {
			fmt.Fprintln(os.Stderr, "fuzzconv:", err)
			os.Exit(1)
		}
	}
}

// parseCorpusBytes decodes a "go test fuzz v1" corpus file holding one []byte value.
func parseCorpusBytes(b []byte) ([]byte, error) {
	lines := strings.Split(strings.TrimSpace(string(b)), "\n")
	if len(lines) < 2 || !strings.HasPrefix(lines[0], "go test fuzz v1") {
		return nil, fmt.Errorf("not a corpus file")
	}
	l := strings.TrimSpace(lines[1])
	if !strings.HasPrefix(l, "[]byte(") || !strings.HasSuffix(l, ")") {
		return nil, fmt.Errorf("unexpected corpus entry %q", l)
	}
	s, err := strconv.Unquote(l[len("[]byte(") : len(l)-1])
	if err != nil {
		return nil, err
	}
	return []byte(s), nil
}
