package vh

import (
	"fmt"
	"strings"

	"vh/drv"
)

// C10 - every invocation gets a live context and has all its cleanups run, LIFO.

type C10Case struct {
	Case   *CheckCase `json:"case"`
	Mode   string     `json:"mode"` // check | rerun (fail file replay) | fuzz | example | goexit (Check on a goroutine that user code ends with runtime.Goexit)
	Stream []uint64   `json:"stream,omitempty"`
	ExGen  *GenSpec   `json:"exgen,omitempty"`
	ExSeed int        `json:"exseed,omitempty"`
}

type c10 struct{}

func init() { register(c10{}) }

func (c10) ID() string       { return "C10" }
func (c10) NewCase() any     { return &C10Case{} }
func (c10) Cases(c *Ctx) int { return c.Pick(1500, 30000) }

// sprinkle inserts cleanup registrations and context probes all over a program.
func sprinkle(dt *drv.T, body []*Stmt, where string, depth int) []*Stmt {
	var out []*Stmt
	add := func() {
		switch pick(dt, "sprinkle", "none", "none", "cleanup", "cleanup", "ctx", "gocx", "nilcleanup") {
		case "nilcleanup":
			if chance(dt, "nilcl", 40) {
				out = append(out, &Stmt{Op: "cleanup", Kind: "nil"})
			}
		case "cleanup":
			out = append(out, genC10Cleanup(dt, 2))
		case "ctx":
			out = append(out, &Stmt{Op: "ctx"})
		case "gocx":
			if where != "go" {
				out = append(out, &Stmt{Op: "go", Body: []*Stmt{{Op: "ctx"}, genC10Cleanup(dt, 0), {Op: "ctx"}}})
			}
		}
	}
	for _, st := range body {
		add()
		if depth > 0 {
			switch st.Op {
			case "if":
				st.Body = sprinkle(dt, st.Body, where, depth-1)
			case "repeat":
				for _, a := range st.Actions {
					a.Body = sprinkle(dt, a.Body, "action", depth-1)
				}
				if st.HasInv {
					st.Inv = sprinkle(dt, st.Inv, "inv", depth-1)
				}
			}
		}
		out = append(out, st)
	}
	add()
	return out
}

func genC10Cleanup(dt *drv.T, depth int) *Stmt {
	st := &Stmt{Op: "cleanup"}
	n := drv.IntRange(0, 3).Draw(dt, "ncl")
	for i := 0; i < n; i++ {
		switch pick(dt, "clstmt", "ctx", "ctx", "log", "sig", "nested", "nested", "skip") {
		case "skip":
			// a cleanup may declare the test case invalid (unusual, but legal): the bracket discipline is about
			// every way a call can end
			if chance(dt, "clskip", 40) {
				st.Body = append(st.Body, &Stmt{Op: "skip", Kind: pick(dt, "skipkind", skipKinds...)})
				return st
			}
		case "ctx":
			st.Body = append(st.Body, &Stmt{Op: "ctx"})
		case "log":
			st.Body = append(st.Body, &Stmt{Op: "log", N: 4})
		case "sig":
			if chance(dt, "clsig", 35) {
				st.Body = append(st.Body, genSig(dt, allSigKinds)) // incl. cleanups that panic
			}
		case "nested":
			if depth > 0 {
				st.Body = append(st.Body, genC10Cleanup(dt, depth-1))
			}
		}
	}
	return st
}

func (c10) Gen(dt *drv.T, c *Ctx) any {
	cs := &C10Case{Case: &CheckCase{}}
	cs.Mode = pick(dt, "mode", "check", "check", "check", "rerun", "fuzz", "example", "goexit")
	gc := GenCfg{LenCap: 8, Depth: c.Pick(1, 2), SmallInts: true, RejectHeavy: chance(dt, "rej", 40), Custom: true, CustomStmts: true, CustomNonFatal: true, CleanupBeforeSkip: true}
	if cs.Mode == "example" {
		cs.ExGen = genCustomSpec(dt, gc)
		if chance(dt, "wrapfilter", 40) {
			cs.ExGen = &GenSpec{K: "filter", Fn: "mod", FM: 2, FC: int64(drv.IntRange(0, 1).Draw(dt, "fc")), Sub: []*GenSpec{cs.ExGen}}
		}
		cs.ExSeed = drv.IntRange(0, 1<<30).Draw(dt, "exseed")
		return cs
	}
	pc := ProgCfg{Gen: gc, MaxStmts: c.Pick(5, 7), Repeat: true, Cleanups: true, Ctx: true, Go: true, Skips: true, SigPct: 60}
	p := GenProg(dt, pc)
	p.Body = sprinkle(dt, p.Body, "body", 2)
	cs.Case.Prog = p
	cs.Case.Cfg = genCheckCfg(dt, "TestC10", 60)
	cs.Case.Cfg.NoFailFile = cs.Mode != "rerun"
	cs.Case.Cfg.ShrinkNS = pick(dt, "shrink", int64(0), 5e6, 5e7, 3e8)
	if cs.Mode == "goexit" {
		// somewhere user code ends the goroutine: at the end of the body, under a condition, or as the last statement
		// of a cleanup (never on the extra goroutines, whose exit would end only themselves)
		plantGoexit(dt, p)
	}
	if cs.Mode == "fuzz" {
		cs.Stream = genStream(dt)
		cs.Stream = append(cs.Stream, genStream(dt)...)
	}
	return cs
}

// plantGoexit puts goexit statements into cleanups (as their last statement) and at the end of the body.
func plantGoexit(dt *drv.T, p *Prog) {
	planted := 0
	var walk func(body []*Stmt, inGo bool)
	walk = func(body []*Stmt, inGo bool) {
		for _, st := range body {
			switch st.Op {
			case "cleanup":
				walk(st.Body, inGo)
				if !inGo && st.Kind != "nil" && chance(dt, "goexit-in-cleanup", 35) {
					st.Body = append(st.Body, &Stmt{Op: "goexit"})
					planted++
				}
			case "go":
				walk(st.Body, true)
			case "if", "ifinv":
				walk(st.Body, inGo)
			case "repeat":
				for _, a := range st.Actions {
					walk(a.Body, inGo)
				}
				walk(st.Inv, inGo)
			}
		}
	}
	walk(p.Body, false)
	if planted == 0 || chance(dt, "goexit-in-body", 40) {
		ge := &Stmt{Op: "goexit"}
		if chance(dt, "goexit-cond", 60) {
			ge = &Stmt{Op: "if", Cond: &Cond{Draw: 0, Op: "mod", M: int64(pick(dt, "gm", 2, 3, 5)), C: 0}, Body: []*Stmt{ge}}
		}
		p.Body = append(p.Body, ge)
	}
}

// validateBrackets checks the context / cleanup discipline on the trace of one invocation.
func validateBrackets(inv *Invocation) (key, msg string) {
	type scopeState struct {
		stack   []int
		regd    map[int]bool
		ran     map[int]int
		ended   bool // the scope's function has returned (cend / bleave seen)
		cleaned bool // a cleanup of this scope has started
		hasLive bool
		liveID  int
	}
	sc := map[int]*scopeState{}
	get := func(id int) *scopeState {
		s := sc[id]
		if s == nil {
			s = &scopeState{regd: map[int]bool{}, ran: map[int]int{}}
			sc[id] = s
		}
		return s
	}
	get(0)
	var openCustom []int // custom scopes started since the enclosing dbeg
	for _, e := range inv.Events {
		s := get(e.Scope)
		switch e.K {
		case "cstart":
			openCustom = append(openCustom, e.Scope)
		case "cend":
			s.ended = true
		case "bleave":
			get(0).ended = true
		case "dret":
			// a Custom call that has returned has to be completely cleaned up before any Draw returns
			for _, id := range openCustom {
				if cs := get(id); cs.ended && len(cs.stack) > 0 {
					return "custom-cleanup-after-draw-returned", fmt.Sprintf("Draw returned but cleanups %v of the Custom call (scope %d) had not run", cs.stack, id)
				}
			}
		case "creg":
			s.regd[e.ID] = true
			s.stack = append(s.stack, e.ID)
		case "crun":
			if !s.regd[e.ID] {
				return "foreign-cleanup", fmt.Sprintf("cleanup %d ran in this invocation but was registered in an earlier one", e.ID)
			}
			s.ran[e.ID]++
			if s.ran[e.ID] > 1 {
				return "cleanup-ran-twice", fmt.Sprintf("cleanup %d of scope %d ran %d times", e.ID, e.Scope, s.ran[e.ID])
			}
			if !s.ended {
				return "cleanup-before-return", fmt.Sprintf("cleanup %d of scope %d ran before the function that registered it returned", e.ID, e.Scope)
			}
			if n := len(s.stack); n == 0 || s.stack[n-1] != e.ID {
				return "cleanup-order", fmt.Sprintf("cleanup %d of scope %d ran, but last-in-first-out order required %v (top last)", e.ID, e.Scope, s.stack)
			}
			s.stack = s.stack[:len(s.stack)-1]
			s.cleaned = true
		case "ctx":
			inCleanup := e.Where == "cleanup" || e.Where == "ccleanup"
			if !inCleanup {
				if !s.hasLive {
					s.hasLive, s.liveID = true, e.ID
				} else if s.liveID != e.ID {
					return "context-not-unique", fmt.Sprintf("T.Context() returned a second, different context within one call (scope %d, in %s)", e.Scope, e.Where)
				}
			}
			if !inCleanup && !e.Live && !s.ended {
				return "context-dead-during-call", fmt.Sprintf("T.Context() is already cancelled while the function is running (scope %d, in %s)", e.Scope, e.Where)
			}
			if inCleanup && e.Live {
				return "context-live-during-cleanup", fmt.Sprintf("T.Context() taken during cleanup is not cancelled (scope %d)", e.Scope)
			}
		case "ctxs":
			if e.Live {
				switch e.Where {
				case "cleanup":
					return "context-live-during-cleanup", fmt.Sprintf("a cleanup of scope %d runs while the context of that call is not cancelled yet", e.Scope)
				case "final":
					return "context-never-cancelled", fmt.Sprintf("the context of scope %d is still live after the invocation and all its cleanups are over", e.Scope)
				}
			}
		}
	}
	for id, s := range sc {
		if len(s.stack) > 0 {
			return "cleanup-never-ran", fmt.Sprintf("cleanups %v of scope %d never ran", s.stack, id)
		}
	}
	return "", ""
}

func (c10) Run(c *Ctx, csAny any) Outcome {
	cs := csAny.(*C10Case)
	out := Outcome{}
	dir := EnterCaseDir()
	defer LeaveCaseDir(dir)
	var viol *Violation
	nontrivial := false
	classes := map[string]bool{"mode-" + cs.Mode: true}
	total := 0
	onDone := func(inv *Invocation) {
		total++
		if viol != nil {
			return
		}
		if key, msg := validateBrackets(inv); key != "" {
			viol = violf("C10:"+key, "invocation %d (ended %s): %s; trace: %s", inv.Idx, inv.End, msg, bracketTrace(inv))
			return
		}
		ncl, panicking, customs := 0, false, 0
		for _, e := range inv.Events {
			switch e.K {
			case "creg":
				ncl++
			case "cleave":
				if !e.Normal {
					panicking = true
				}
			case "cstart":
				customs++
			}
		}
		if ncl >= 2 || panicking {
			nontrivial = true
		}
		if panicking {
			classes["panicking-cleanup"] = true
		}
		if inv.CRetries > 0 {
			classes["retried-custom"] = true
		}
		if customs > 0 {
			classes["custom-scope"] = true
		}
		classes["end-"+inv.End] = true
	}

	if cs.Mode == "example" {
		x := NewInterp(nil)
		x.OnDone = onDone
		g := cs.ExGen.Build(x.Env)
		exampleOf(g, cs.ExSeed)
		x.Finish()
	} else {
		x := NewInterp(cs.Case.Prog)
		x.OnDone = onDone
		switch cs.Mode {
		case "fuzz":
			res := RunFuzzCfg(cs.Case.Cfg, x.Prop, WordsToBytes(cs.Stream))
			if res.Panicked != nil {
				out.Viol = violf("C10:panic-escaped", "a panic escaped MakeFuzz: %v", res.Panicked)
			}
		case "goexit":
			obs, goexited := RunCheckGo(cs.Case.Cfg, x.Prop)
			if goexited {
				classes["goroutine-ended-by-Goexit"] = true
			}
			if obs.Escaped != nil {
				out.Viol = violf("C10:panic-escaped", "a panic escaped rapid.Check: %v", obs.Escaped)
			}
		default:
			obs := RunCheck(cs.Case.Cfg, x.Prop)
			if obs.Escaped != nil {
				out.Viol = violf("C10:panic-escaped", "a panic escaped rapid.Check: %v", obs.Escaped)
			}
			if cs.Mode == "rerun" && out.Viol == nil {
				x.Finish()
				cfg2 := cs.Case.Cfg
				cfg2.Seed = 0
				obs2 := RunCheck(cfg2, x.Prop)
				if obs2.Escaped != nil {
					out.Viol = violf("C10:panic-escaped", "a panic escaped rapid.Check: %v", obs2.Escaped)
				}
				if len(FailFiles()) > 0 {
					classes["failfile-replayed"] = true
				}
			}
		}
		x.Finish()
		if x.Aborted != "" && out.Viol == nil {
			out.Viol = violf("C10:loops", "%s", x.Aborted)
		}
	}
	if total >= 50 {
		nontrivial = true
		classes["run>=50-invocations"] = true
	}
	for k := range classes {
		out.Classes = append(out.Classes, k)
	}
	out.NonTrivial = nontrivial
	if out.Viol == nil {
		out.Viol = viol
	}
	return out
}

func bracketTrace(inv *Invocation) string {
	var b strings.Builder
	for _, e := range inv.Events {
		switch e.K {
		case "creg":
			fmt.Fprintf(&b, "reg%d@%d ", e.ID, e.Scope)
		case "crun":
			fmt.Fprintf(&b, "run%d@%d ", e.ID, e.Scope)
		case "cleave":
			if !e.Normal {
				fmt.Fprintf(&b, "panic%d ", e.ID)
			}
		case "cstart":
			fmt.Fprintf(&b, "custom%d( ", e.Scope)
		case "cend":
			fmt.Fprintf(&b, ")%d ", e.Scope)
		case "bleave":
			b.WriteString("body-returned ")
		case "ctx":
			fmt.Fprintf(&b, "ctx@%d:%v ", e.Scope, e.Live)
		case "dret":
			b.WriteString("drawn ")
		}
		if b.Len() > 1500 {
			b.WriteString("...")
			break
		}
	}
	return b.String()
}
