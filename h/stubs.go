package vh

import (
	"pgregory.net/rapid"
)

// State machines built with StateMachineActions: menu types whose exported methods are actions (taking *T or
// TB), the invariant (Check) and things that are not actions at all.

type smBase struct {
	acts  map[string]func(*rapid.T)
	bogus func(name string)
}

func (s *smBase) run(name string, t *rapid.T) {
	if f := s.acts[name]; f != nil {
		f(t)
	}
}

// smA: two *T actions, one TB action, Check, and non-action methods.
type smA struct{ smBase }

func (s *smA) A0(t *rapid.T)         { s.run("a0", t) }
func (s *smA) A1(t rapid.TB)         { s.run("a1", t.(*rapid.T)) }
func (s *smA) A2(t *rapid.T)         { s.run("a2", t) }
func (s *smA) A3(t *rapid.T)         { s.run("a3", t) }
func (s *smA) Check(t *rapid.T)      { s.run("", t) }
func (s *smA) NotAnAction(x int) int { s.bogus("NotAnAction"); return x }
func (s *smA) AlsoNot()              { s.bogus("AlsoNot") }
func (s *smA) TwoArgs(t *rapid.T, n int) {
	s.bogus("TwoArgs")
}

// exported helpers that take the right kind of argument but return something: not of the form func(*T) / func(TB)
func (s *smA) Drain(t rapid.TB) int { s.bogus("Drain"); return 0 }
func (s *smA) Top(t interface{ Fatalf(string, ...any) }) (int, bool) {
	s.bogus("Top")
	return 0, false
}
func (s *smA) Many(ts ...*rapid.T) { s.bogus("Many") }
func (s *smA) Any(x any)           { s.bogus("Any") }

// smB: value receiver, TB-only actions.
type smB struct{ b *smBase }

func (s smB) A0(t rapid.TB)    { s.b.run("a0", t.(*rapid.T)) }
func (s smB) A1(t rapid.TB)    { s.b.run("a1", t.(*rapid.T)) }
func (s smB) A2(t rapid.TB)    { s.b.run("a2", t.(*rapid.T)) }
func (s smB) A3(t rapid.TB)    { s.b.run("a3", t.(*rapid.T)) }
func (s smB) Check(t *rapid.T) { s.b.run("", t) }
func (s smB) Returns(t *rapid.T) error {
	s.b.bogus("Returns")
	return nil
}
func (s smB) Size(t rapid.TB) int { s.b.bogus("Size"); return 0 }
func (s smB) Peek(t interface {
	Helper()
	Name() string
}) string {
	s.b.bogus("Peek")
	return ""
}

// smActions wraps an actions map into a state machine object and lets the library derive the map again.
// Methods of the menu type without a counterpart in actions run nothing, but are still selectable actions:
// an action set built this way always has the menu type's action names.
func smActions(kind string, actions map[string]func(*rapid.T), bogus func(string)) map[string]func(*rapid.T) {
	base := smBase{acts: actions, bogus: bogus}
	if kind == "B" {
		return rapid.StateMachineActions(smB{b: &base})
	}
	return rapid.StateMachineActions(&smA{base})
}

// smDirect calls every entry of the map that StateMachineActions derives from a menu object and checks that
// the entry named after method M runs the body of method M (and "" the invariant), on the T it is given.
func smDirect(kind string) *Violation {
	var ran []string
	acts := map[string]func(*rapid.T){}
	for _, n := range []string{"a0", "a1", "a2", "a3", ""} {
		n := n
		acts[n] = func(*rapid.T) { ran = append(ran, n) }
	}
	var viol *Violation
	obs := RunCheck(CheckCfg{Name: "TestSMDirect", Seed: 1, Checks: 1, ShrinkNS: 0, NoFailFile: true}, func(t *rapid.T) {
		m := smActions(kind, acts, func(name string) { ran = append(ran, "bogus:"+name) })
		want := map[string]string{"A0": "a0", "A1": "a1", "A2": "a2", "A3": "a3", "": ""}
		for name, body := range want {
			f := m[name]
			if f == nil {
				viol = violf("C08:statemachineactions-wrong-method", "menu type %s: StateMachineActions has no entry %q", kind, name)
				return
			}
			ran = nil
			f(t)
			if len(ran) != 1 || ran[0] != body {
				viol = violf("C08:statemachineactions-wrong-method", "menu type %s: the entry %q of StateMachineActions ran %q instead of the body of method %q", kind, name, ran, name)
				return
			}
		}
		for name := range m {
			if _, ok := want[name]; !ok {
				viol = violf("C08:statemachineactions-wrong-method", "menu type %s: StateMachineActions has an entry %q that is not an action method", kind, name)
				return
			}
		}
	})
	if viol == nil && (obs.Failed || obs.Escaped != nil) {
		rep := ParseReport(obs)
		viol = violf("C08:statemachineactions-wrong-method", "menu type %s: calling the entries of StateMachineActions failed: %s %s %v", kind, rep.Kind, rep.Msg, obs.Escaped)
	}
	return viol
}
