#!/usr/bin/env python3
"""Renders mutants/LAST_RESULTS.json and seeded/*/meta.json into mutants/RESULTS.md (referenced from DESIGN.md section 5)."""
import json, os

VERIF = os.path.dirname(os.path.dirname(os.path.abspath(__file__)))


def main():
    out = ["# Sensitivity results", "",
           "Produced by `tools/selftest.py --suite` (hand-written mutants, `mutants/*.diff`) and `tools/verify_seed.py` (changes written by",
           "independent sub-agents that saw only the property text, `seeded/*/`). `suite` = the repository's own tests on the mutated copy;",
           "a mutant whose suite fails would be caught by the existing tests anyway and is kept only as a sanity check of the oracle.", "",
           "## Hand-written mutants", "", "| mutant | what | suite | checks (quick tier) |", "|---|---|---|---|"]
    res = json.load(open(os.path.join(VERIF, "mutants", "LAST_RESULTS.json")))
    red = green = 0
    for r in sorted(res, key=lambda r: r["name"]):
        if "error" in r:
            out.append("| %s | %s | - | ERROR %s |" % (r["name"], r.get("what", ""), r["error"][:80]))
            continue
        cells = []
        for pid, x in r["results"].items():
            v = {0: "green", 1: "**RED**", 2: "inconclusive"}.get(x["exit"], "?")
            if x["exit"] == 1:
                red += 1
            elif x["exit"] == 0:
                green += 1
            cells.append("%s %s %ss %s" % (pid, v, x["secs"], " ".join("`%s`" % k for k in x["keys"][:4])))
        out.append("| %s | %s | %s | %s |" % (r["name"], r.get("what", ""), r.get("suite", "-"), "<br>".join(cells)))
    out += ["", "%d (mutant, check) pairs red, %d green." % (red, green), "", "## Changes seeded by sub-agents", "",
            "| id | property | needs, in order to manifest | suite passes | demo fails with / passes without | checks (quick tier) |", "|---|---|---|---|---|---|"]
    sd = os.path.join(VERIF, "seeded")
    for d in sorted(os.listdir(sd)) if os.path.isdir(sd) else []:
        mp = os.path.join(sd, d, "meta.json")
        if not os.path.exists(mp):
            continue
        m = json.load(open(mp))
        cells = []
        for pid, x in (m.get("checks_result") or {}).items():
            v = {0: "green (missed)", 1: "**RED**", 2: "inconclusive"}.get(x["exit"], "?")
            cells.append("%s %s %s" % (pid, v, " ".join("`%s`" % k for k in x["keys"][:3])))
        hist = m.get("history", "")
        out.append("| %s | %s | %s | %s | %s / %s | %s%s |" % (d, m.get("property"), m.get("needs", "").replace("_", " "), m.get("suite_passes_with_change"),
                                                          m.get("demo_fails_with_change"), m.get("demo_passes_without_change"), "<br>".join(cells), ("<br>" + hist) if hist else ""))
    open(os.path.join(VERIF, "mutants", "RESULTS.md"), "w").write("\n".join(out) + "\n")
    print("\n".join(out[-12:]))


if __name__ == "__main__":
    main()
