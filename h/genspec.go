package vh

import (
	"fmt"
	"math"
	"net"
	"reflect"
	"regexp"
	"sort"
	"strings"
	"sync"
	"sync/atomic"
	"unicode"
	"unicode/utf8"

	"pgregory.net/rapid"
)

// GenSpec is a serialisable generator expression. Build turns it into a generator of the library under
// test; Contract checks a produced value against the documented contract of that expression, without
// looking at how the library produced it.
type GenSpec struct {
	K        string     `json:"k"`
	IK       string     `json:"ik,omitempty"`   // integer kind: Int Int8 ... Uintptr Byte
	Mode     string     `json:"mode,omitempty"` // "", min, max, range
	SA       int64      `json:"sa,omitempty"`
	SB       int64      `json:"sb,omitempty"`
	UA       uint64     `json:"ua,omitempty"` // unsigned bound / float64 bits of min
	UB       uint64     `json:"ub,omitempty"`
	Bits     int        `json:"bits,omitempty"` // float: 32 or 64
	Runes    []int32    `json:"runes,omitempty"`
	Tables   []string   `json:"tables,omitempty"`
	Sub      []*GenSpec `json:"sub,omitempty"`
	Min      int        `json:"min,omitempty"`
	Max      int        `json:"max,omitempty"`
	MaxLen   int        `json:"maxlen,omitempty"`
	Short    bool       `json:"short,omitempty"`   // use the shorthand constructor (SliceOf, MapOf, String, ...) when bounds are all -1
	Fn       string     `json:"fn,omitempty"`      // key function: id | mod ; predicate: mod | ge | le | never | always
	SigKind  string     `json:"sigkind,omitempty"` // filter Fn "sig": the predicate raises this signal on the T of the draw in flight
	SigSite  int        `json:"sigsite,omitempty"`
	FM       int64      `json:"fm,omitempty"`
	FC       int64      `json:"fc,omitempty"`
	Re       string     `json:"re,omitempty"`
	N        int        `json:"n,omitempty"`
	AllowNil bool       `json:"allownil,omitempty"`
	Body     []*Stmt    `json:"body,omitempty"` // custom
	Type     string     `json:"type,omitempty"` // make
}

// Tag is the element type of SampledFrom/Just/Permutation inputs.
type Tag struct{ I int }

// Wrapped is the (injective) image of the Map node.
type Wrapped struct{ V any }

// CustomVal is what a Custom node returns: the values its function drew, with their specs.
type CustomVal struct {
	Specs []*GenSpec
	Vals  []any
}

// BuildEnv carries what generator closures need at run time.
type BuildEnv struct {
	X        *Interp // interpreter running Custom bodies (nil: Custom bodies only draw)
	Rejects  int64   // observed rejections: filter predicate false, duplicate key (atomic)
	FnCalls  int64   // calls of user functions (atomic)
	KeyCalls int64   // calls of key functions of distinct slices / MapOfValues (atomic)
	inputs   sync.Map
	deferred int64
}

func (e *BuildEnv) rejected() { atomic.AddInt64(&e.Rejects, 1) }

var intTypes = map[string]reflect.Type{
	"Int": reflect.TypeOf(int(0)), "Int8": reflect.TypeOf(int8(0)), "Int16": reflect.TypeOf(int16(0)),
	"Int32": reflect.TypeOf(int32(0)), "Int64": reflect.TypeOf(int64(0)),
	"Uint": reflect.TypeOf(uint(0)), "Uint8": reflect.TypeOf(uint8(0)), "Uint16": reflect.TypeOf(uint16(0)),
	"Uint32": reflect.TypeOf(uint32(0)), "Uint64": reflect.TypeOf(uint64(0)), "Uintptr": reflect.TypeOf(uintptr(0)),
	"Byte": reflect.TypeOf(byte(0)),
}

var intKinds = []string{"Int", "Int8", "Int16", "Int32", "Int64", "Uint", "Uint8", "Uint16", "Uint32", "Uint64", "Uintptr", "Byte"}

func intSigned(k string) bool { return strings.HasPrefix(k, "Int") }

func intBits(k string) int {
	switch k {
	case "Int8", "Uint8", "Byte":
		return 8
	case "Int16", "Uint16":
		return 16
	case "Int32", "Uint32":
		return 32
	}
	return 64
}

func sBounds(k string) (int64, int64) {
	b := intBits(k)
	if b == 64 {
		return math.MinInt64, math.MaxInt64
	}
	return -(int64(1) << (b - 1)), int64(1)<<(b-1) - 1
}

func uMax(k string) uint64 {
	b := intBits(k)
	if b == 64 {
		return math.MaxUint64
	}
	return uint64(1)<<b - 1
}

type sInt interface {
	~int | ~int8 | ~int16 | ~int32 | ~int64
}
type uInt interface {
	~uint | ~uint8 | ~uint16 | ~uint32 | ~uint64 | ~uintptr
}

func mkS[I sInt](s *GenSpec, none func() *rapid.Generator[I], min func(I) *rapid.Generator[I], max func(I) *rapid.Generator[I], rng func(I, I) *rapid.Generator[I]) *rapid.Generator[any] {
	switch s.Mode {
	case "min":
		return min(I(s.SA)).AsAny()
	case "max":
		return max(I(s.SB)).AsAny()
	case "range":
		return rng(I(s.SA), I(s.SB)).AsAny()
	}
	return none().AsAny()
}

func mkU[I uInt](s *GenSpec, none func() *rapid.Generator[I], min func(I) *rapid.Generator[I], max func(I) *rapid.Generator[I], rng func(I, I) *rapid.Generator[I]) *rapid.Generator[any] {
	switch s.Mode {
	case "min":
		return min(I(s.UA)).AsAny()
	case "max":
		return max(I(s.UB)).AsAny()
	case "range":
		return rng(I(s.UA), I(s.UB)).AsAny()
	}
	return none().AsAny()
}

func buildInt(s *GenSpec) *rapid.Generator[any] {
	switch s.IK {
	case "Int":
		return mkS(s, rapid.Int, rapid.IntMin, rapid.IntMax, rapid.IntRange)
	case "Int8":
		return mkS(s, rapid.Int8, rapid.Int8Min, rapid.Int8Max, rapid.Int8Range)
	case "Int16":
		return mkS(s, rapid.Int16, rapid.Int16Min, rapid.Int16Max, rapid.Int16Range)
	case "Int32":
		return mkS(s, rapid.Int32, rapid.Int32Min, rapid.Int32Max, rapid.Int32Range)
	case "Int64":
		return mkS(s, rapid.Int64, rapid.Int64Min, rapid.Int64Max, rapid.Int64Range)
	case "Uint":
		return mkU(s, rapid.Uint, rapid.UintMin, rapid.UintMax, rapid.UintRange)
	case "Uint8":
		return mkU(s, rapid.Uint8, rapid.Uint8Min, rapid.Uint8Max, rapid.Uint8Range)
	case "Uint16":
		return mkU(s, rapid.Uint16, rapid.Uint16Min, rapid.Uint16Max, rapid.Uint16Range)
	case "Uint32":
		return mkU(s, rapid.Uint32, rapid.Uint32Min, rapid.Uint32Max, rapid.Uint32Range)
	case "Uint64":
		return mkU(s, rapid.Uint64, rapid.Uint64Min, rapid.Uint64Max, rapid.Uint64Range)
	case "Uintptr":
		return mkU(s, rapid.Uintptr, rapid.UintptrMin, rapid.UintptrMax, rapid.UintptrRange)
	case "Byte":
		return mkU(s, rapid.Byte, rapid.ByteMin, rapid.ByteMax, rapid.ByteRange)
	}
	panic("harness: bad int kind " + s.IK)
}

var tableByName = func() map[string]*unicode.RangeTable {
	m := map[string]*unicode.RangeTable{}
	for k, v := range unicode.Categories {
		m[k] = v
	}
	for k, v := range unicode.Scripts {
		m[k] = v
	}
	return m
}()

func buildRune(s *GenSpec) *rapid.Generator[rune] {
	switch s.K {
	case "rune":
		return rapid.Rune()
	case "runefrom":
		var tabs []*unicode.RangeTable
		for _, n := range s.Tables {
			tabs = append(tabs, tableByName[n])
		}
		return rapid.RuneFrom(append([]rune(nil), s.Runes...), tabs...)
	case "runeint":
		// StringOf takes any generator of runes; one that is not built by Rune/RuneFrom can produce values
		// that are not valid runes (negative, surrogates, above MaxRune), which StringOf has to reject
		return rapid.Int32Range(int32(s.SA), int32(s.SB))
	case "runesampled":
		return rapid.SampledFrom(append([]rune(nil), s.Runes...))
	}
	panic("harness: not a rune spec: " + s.K)
}

func (s *GenSpec) pred(v any) bool {
	m := Measure(v)
	switch s.Fn {
	case "mod":
		return mod(m, s.FM) == s.FC
	case "ge":
		return m >= s.FC
	case "le":
		return m <= s.FC
	case "never":
		return false
	case "sig":
		return mod(m, s.FM) != s.FC
	}
	return true
}

func mod(a, m int64) int64 {
	if m <= 0 {
		return 0
	}
	r := a % m
	if r < 0 {
		r += m
	}
	return r
}

func (s *GenSpec) key(v any) any {
	if s.Fn == "mod" {
		return mod(Measure(v), s.FM)
	}
	return v
}

func tags(n int) []any {
	sl := make([]any, n)
	for i := range sl {
		sl[i] = Tag{i}
	}
	return sl
}

// MakeTypes is the menu of the Make node.
type mkNamedInt int16
type mkNamedStr string
type mkNamedByte uint8
type mkNamedBytes []mkNamedByte
type mkBytesHolder struct {
	Ops  []mkNamedByte
	Raw  []byte
	Code mkNamedBytes
	M    map[mkNamedByte][]mkNamedByte
	IP   net.IP
}
type mkInner struct {
	A int8
	B string
}
type mkOuter struct {
	X  mkNamedInt
	Y  []mkInner
	Z  map[uint8]bool
	P  *mkInner
	F  float32
	Ar [3]uint16
	S  mkNamedStr
}
type mkMapHolder struct {
	N int8
	M map[bool]int16
	L []map[bool]uint8
}
type mkRec struct {
	V    byte
	Next *mkRec
}

// two distinct types that share package path and name (declared in different function scopes)
func mkLocalA() (reflect.Type, func() *rapid.Generator[any]) {
	type Local struct {
		A int8
		B string
	}
	return reflect.TypeOf(Local{}), func() *rapid.Generator[any] { return rapid.Make[Local]().AsAny() }
}

func mkLocalB() (reflect.Type, func() *rapid.Generator[any]) {
	type Local struct {
		X []bool
		Y *Local
	}
	return reflect.TypeOf(Local{}), func() *rapid.Generator[any] { return rapid.Make[Local]().AsAny() }
}

func mkLocalC() (reflect.Type, func() *rapid.Generator[any]) {
	type Local uint16
	return reflect.TypeOf(map[Local][]Local{}), func() *rapid.Generator[any] { return rapid.Make[map[Local][]Local]().AsAny() }
}

func init() {
	for name, f := range map[string]func() (reflect.Type, func() *rapid.Generator[any]){"localA": mkLocalA, "localB": mkLocalB, "localC": mkLocalC} {
		typ, build := f()
		makeTypes[name] = struct {
			typ   reflect.Type
			build func() *rapid.Generator[any]
		}{typ, build}
	}
	makeTypeNames = nil
	for k := range makeTypes {
		makeTypeNames = append(makeTypeNames, k)
	}
	sort.Strings(makeTypeNames)
}

var makeTypes = map[string]struct {
	typ   reflect.Type
	build func() *rapid.Generator[any]
}{
	"int":            {reflect.TypeOf(int(0)), func() *rapid.Generator[any] { return rapid.Make[int]().AsAny() }},
	"uint64":         {reflect.TypeOf(uint64(0)), func() *rapid.Generator[any] { return rapid.Make[uint64]().AsAny() }},
	"bool":           {reflect.TypeOf(false), func() *rapid.Generator[any] { return rapid.Make[bool]().AsAny() }},
	"string":         {reflect.TypeOf(""), func() *rapid.Generator[any] { return rapid.Make[string]().AsAny() }},
	"float64":        {reflect.TypeOf(float64(0)), func() *rapid.Generator[any] { return rapid.Make[float64]().AsAny() }},
	"namedint":       {reflect.TypeOf(mkNamedInt(0)), func() *rapid.Generator[any] { return rapid.Make[mkNamedInt]().AsAny() }},
	"namedstr":       {reflect.TypeOf(mkNamedStr("")), func() *rapid.Generator[any] { return rapid.Make[mkNamedStr]().AsAny() }},
	"array":          {reflect.TypeOf([4]int8{}), func() *rapid.Generator[any] { return rapid.Make[[4]int8]().AsAny() }},
	"array0":         {reflect.TypeOf([0]int{}), func() *rapid.Generator[any] { return rapid.Make[[0]int]().AsAny() }},
	"slice":          {reflect.TypeOf([]uint16{}), func() *rapid.Generator[any] { return rapid.Make[[]uint16]().AsAny() }},
	"slicenamed":     {reflect.TypeOf([]mkNamedInt{}), func() *rapid.Generator[any] { return rapid.Make[[]mkNamedInt]().AsAny() }},
	"map":            {reflect.TypeOf(map[int8]string{}), func() *rapid.Generator[any] { return rapid.Make[map[int8]string]().AsAny() }},
	"mapbool":        {reflect.TypeOf(map[bool]int{}), func() *rapid.Generator[any] { return rapid.Make[map[bool]int]().AsAny() }},
	"mapboolstr":     {reflect.TypeOf(map[bool]string{}), func() *rapid.Generator[any] { return rapid.Make[map[bool]string]().AsAny() }},
	"structmapbool":  {reflect.TypeOf(mkMapHolder{}), func() *rapid.Generator[any] { return rapid.Make[mkMapHolder]().AsAny() }},
	"bytes":          {reflect.TypeOf([]byte{}), func() *rapid.Generator[any] { return rapid.Make[[]byte]().AsAny() }},
	"slicenamedbyte": {reflect.TypeOf([]mkNamedByte{}), func() *rapid.Generator[any] { return rapid.Make[[]mkNamedByte]().AsAny() }},
	"namedbytes":     {reflect.TypeOf(mkNamedBytes{}), func() *rapid.Generator[any] { return rapid.Make[mkNamedBytes]().AsAny() }},
	"netip":          {reflect.TypeOf(net.IP{}), func() *rapid.Generator[any] { return rapid.Make[net.IP]().AsAny() }},
	"bytesholder":    {reflect.TypeOf(mkBytesHolder{}), func() *rapid.Generator[any] { return rapid.Make[mkBytesHolder]().AsAny() }},
	"ptr":            {reflect.TypeOf((*int)(nil)), func() *rapid.Generator[any] { return rapid.Make[*int]().AsAny() }},
	"ptrptr":         {reflect.TypeOf((**uint8)(nil)), func() *rapid.Generator[any] { return rapid.Make[**uint8]().AsAny() }},
	"struct":         {reflect.TypeOf(mkInner{}), func() *rapid.Generator[any] { return rapid.Make[mkInner]().AsAny() }},
	"struct0":        {reflect.TypeOf(struct{}{}), func() *rapid.Generator[any] { return rapid.Make[struct{}]().AsAny() }},
	"nested":         {reflect.TypeOf(mkOuter{}), func() *rapid.Generator[any] { return rapid.Make[mkOuter]().AsAny() }},
	"rec":            {reflect.TypeOf(mkRec{}), func() *rapid.Generator[any] { return rapid.Make[mkRec]().AsAny() }},
}

var makeTypeNames = func() []string {
	var n []string
	for k := range makeTypes {
		n = append(n, k)
	}
	sort.Strings(n)
	return n
}()

// makeFlatTypeNames: the types of the Make menu without pointers (the Go-syntax text of their values does not
// contain addresses, so values of different runs can be compared as text)
var makeFlatTypeNames = []string{"int", "uint64", "bool", "string", "float64", "namedint", "namedstr", "array", "array0", "slice", "slicenamed", "map", "mapbool", "mapboolstr", "structmapbool", "struct", "struct0", "bytes", "slicenamedbyte", "namedbytes", "netip", "bytesholder"}

// Build constructs the generator of the library under test described by s.
func (s *GenSpec) Build(env *BuildEnv) *rapid.Generator[any] {
	switch s.K {
	case "int":
		return buildInt(s)
	case "float":
		if s.Bits == 32 {
			a, b := float32(math.Float64frombits(s.UA)), float32(math.Float64frombits(s.UB))
			switch s.Mode {
			case "min":
				return rapid.Float32Min(a).AsAny()
			case "max":
				return rapid.Float32Max(b).AsAny()
			case "range":
				return rapid.Float32Range(a, b).AsAny()
			}
			return rapid.Float32().AsAny()
		}
		a, b := math.Float64frombits(s.UA), math.Float64frombits(s.UB)
		switch s.Mode {
		case "min":
			return rapid.Float64Min(a).AsAny()
		case "max":
			return rapid.Float64Max(b).AsAny()
		case "range":
			return rapid.Float64Range(a, b).AsAny()
		}
		return rapid.Float64().AsAny()
	case "bool":
		return rapid.Bool().AsAny()
	case "rune", "runefrom":
		return buildRune(s).AsAny()
	case "slice":
		elem := s.Sub[0].Build(env)
		if s.Fn == "" {
			if s.Short && s.Min == -1 && s.Max == -1 {
				return rapid.SliceOf(elem).AsAny()
			}
			return rapid.SliceOfN(elem, s.Min, s.Max).AsAny()
		}
		seenKeys := func(v any) any {
			atomic.AddInt64(&env.FnCalls, 1)
			atomic.AddInt64(&env.KeyCalls, 1)
			return s.key(v)
		}
		if s.Short && s.Min == -1 && s.Max == -1 {
			return rapid.SliceOfDistinct(elem, seenKeys).AsAny()
		}
		return rapid.SliceOfNDistinct(elem, s.Min, s.Max, seenKeys).AsAny()
	case "map":
		key, val := s.Sub[0].Build(env), s.Sub[1].Build(env)
		if s.Short && s.Min == -1 && s.Max == -1 {
			return rapid.MapOf(key, val).AsAny()
		}
		return rapid.MapOfN(key, val, s.Min, s.Max).AsAny()
	case "mapvalues":
		val := s.Sub[0].Build(env)
		kf := func(v any) any {
			atomic.AddInt64(&env.FnCalls, 1)
			atomic.AddInt64(&env.KeyCalls, 1)
			return s.key(v)
		}
		if s.Short && s.Min == -1 && s.Max == -1 {
			return rapid.MapOfValues(val, kf).AsAny()
		}
		return rapid.MapOfNValues(val, s.Min, s.Max, kf).AsAny()
	case "string":
		if len(s.Sub) == 0 {
			if s.Short && s.Min == -1 && s.Max == -1 && s.MaxLen == -1 {
				return rapid.String().AsAny()
			}
			return rapid.StringN(s.Min, s.Max, s.MaxLen).AsAny()
		}
		r := buildRune(s.Sub[0])
		if s.Short && s.Min == -1 && s.Max == -1 && s.MaxLen == -1 {
			return rapid.StringOf(r).AsAny()
		}
		return rapid.StringOfN(r, s.Min, s.Max, s.MaxLen).AsAny()
	case "strmatch":
		return rapid.StringMatching(s.Re).AsAny()
	case "bytesmatch":
		return rapid.SliceOfBytesMatching(s.Re).AsAny()
	case "sampled":
		in := tags(s.N)
		env.inputs.Store(s, in)
		return rapid.SampledFrom(in)
	case "just":
		return rapid.Just[any](Tag{s.N})
	case "perm":
		in := tags(s.N)
		env.inputs.Store(s, in)
		return rapid.Permutation(in).AsAny()
	case "oneof":
		gens := make([]*rapid.Generator[any], len(s.Sub))
		for i, sub := range s.Sub {
			gens[i] = sub.Build(env)
		}
		return rapid.OneOf(gens...)
	case "ptr":
		return rapid.Ptr(s.Sub[0].Build(env), s.AllowNil).AsAny()
	case "deferred":
		return rapid.Deferred(func() *rapid.Generator[any] {
			atomic.AddInt64(&env.deferred, 1)
			return s.Sub[0].Build(env)
		})
	case "mapped":
		return rapid.Map(s.Sub[0].Build(env), func(v any) any {
			atomic.AddInt64(&env.FnCalls, 1)
			if s.SigKind != "" && env.X != nil && mod(Measure(v), s.FM) == s.FC {
				env.X.predSignal(s) // does not return when a draw is in flight under the interpreter
			}
			return Wrapped{v}
		})
	case "filter":
		return s.Sub[0].Build(env).Filter(func(v any) bool {
			atomic.AddInt64(&env.FnCalls, 1)
			ok := s.pred(v)
			if !ok && s.Fn == "sig" && env.X != nil {
				// user code that is handed no T but closes over the one of its property: a failure raised from inside
				// a predicate (fatal kinds and panics only: it does not return). Without a draw in flight under the
				// interpreter (Example, concurrent use) the value is just rejected.
				env.X.predSignal(s)
			}
			if !ok {
				env.rejected()
			}
			return ok
		})
	case "custom":
		subs := map[*GenSpec]*rapid.Generator[any]{}
		collectDrawGens(s.Body, env, subs)
		if env.X == nil {
			// no interpreter (concurrent use): the function only draws
			var draws []*Stmt
			for _, st := range allStmts(s.Body) {
				if st.Op == "draw" {
					draws = append(draws, st)
				}
			}
			return rapid.Custom(func(t *rapid.T) any {
				cv := CustomVal{}
				for _, st := range draws {
					cv.Specs = append(cv.Specs, st.Gen)
					cv.Vals = append(cv.Vals, subs[st.Gen].Draw(t, st.Label))
				}
				return cv
			})
		}
		return rapid.Custom(func(t *rapid.T) any {
			return env.X.runCustom(s, subs, t)
		})
	case "make":
		return makeTypes[s.Type].build()
	case "recdef":
		// one Deferred generator value that refers to itself: every level flips nine fair coins and goes one level
		// deeper unless all come up true (about 500 levels on average, from the bits alone); the value is the depth
		var rec *rapid.Generator[any]
		rec = rapid.Deferred(func() *rapid.Generator[any] {
			return rapid.Custom(func(t *rapid.T) any {
				stop := true
				for i := 0; i < 9; i++ {
					if !rapid.Bool().Draw(t, "b") {
						stop = false
					}
				}
				if stop {
					return 0
				}
				return rec.Draw(t, "deeper").(int) + 1
			})
		})
		return rec
	}
	panic("harness: unknown GenSpec kind " + s.K)
}

func collectDrawGens(body []*Stmt, env *BuildEnv, out map[*GenSpec]*rapid.Generator[any]) {
	for _, st := range body {
		if st.Op == "draw" {
			out[st.Gen] = st.Gen.Build(env)
		}
		collectDrawGens(st.Body, env, out)
	}
}

func (s *GenSpec) fBounds() (lo, hi float64) {
	lo, hi = math.Float64frombits(s.UA), math.Float64frombits(s.UB)
	if s.Bits == 32 {
		lo, hi = float64(float32(lo)), float64(float32(hi))
		switch s.Mode {
		case "":
			lo, hi = -math.MaxFloat32, math.MaxFloat32
		case "min":
			hi = math.MaxFloat32
		case "max":
			lo = -math.MaxFloat32
		}
		return
	}
	switch s.Mode {
	case "":
		lo, hi = -math.MaxFloat64, math.MaxFloat64
	case "min":
		hi = math.MaxFloat64
	case "max":
		lo = -math.MaxFloat64
	}
	return
}

// Contract reports how v violates the documented contract of s ("" if it does not).
func (s *GenSpec) Contract(env *BuildEnv, v any) string {
	switch s.K {
	case "int":
		want := intTypes[s.IK]
		if v == nil || reflect.TypeOf(v) != want {
			return fmt.Sprintf("%s: dynamic type %T, want %v", s.desc(), v, want)
		}
		rv := reflect.ValueOf(v)
		if intSigned(s.IK) {
			lo, hi := sBounds(s.IK)
			if s.Mode == "min" || s.Mode == "range" {
				lo = s.SA
			}
			if s.Mode == "max" || s.Mode == "range" {
				hi = s.SB
			}
			if x := rv.Int(); x < lo || x > hi {
				return fmt.Sprintf("%s: value %d outside [%d, %d]", s.desc(), x, lo, hi)
			}
		} else {
			lo, hi := uint64(0), uMax(s.IK)
			if s.Mode == "min" || s.Mode == "range" {
				lo = s.UA
			}
			if s.Mode == "max" || s.Mode == "range" {
				hi = s.UB
			}
			if x := rv.Uint(); x < lo || x > hi {
				return fmt.Sprintf("%s: value %d outside [%d, %d]", s.desc(), x, lo, hi)
			}
		}
		return ""
	case "float":
		var x float64
		if s.Bits == 32 {
			f, ok := v.(float32)
			if !ok {
				return fmt.Sprintf("%s: dynamic type %T, want float32", s.desc(), v)
			}
			x = float64(f)
		} else {
			f, ok := v.(float64)
			if !ok {
				return fmt.Sprintf("%s: dynamic type %T, want float64", s.desc(), v)
			}
			x = f
		}
		lo, hi := s.fBounds()
		if x != x {
			return fmt.Sprintf("%s: NaN", s.desc())
		}
		if x < lo || x > hi {
			return fmt.Sprintf("%s: value %g (%#x) outside [%g, %g]", s.desc(), x, math.Float64bits(x), lo, hi)
		}
		if math.IsInf(x, 1) && !math.IsInf(hi, 1) || math.IsInf(x, -1) && !math.IsInf(lo, -1) {
			return fmt.Sprintf("%s: infinite value %g with finite bound", s.desc(), x)
		}
		return ""
	case "bool":
		if _, ok := v.(bool); !ok {
			return fmt.Sprintf("Bool: dynamic type %T", v)
		}
		return ""
	case "rune", "runefrom":
		r, ok := v.(rune)
		if !ok {
			return fmt.Sprintf("%s: dynamic type %T, want rune", s.desc(), v)
		}
		return s.runeContract(r)
	case "slice":
		sl, ok := v.([]any)
		if !ok {
			return fmt.Sprintf("%s: dynamic type %T, want []any", s.desc(), v)
		}
		if msg := lenContract(s.desc(), len(sl), s.Min, s.Max); msg != "" {
			return msg
		}
		var seen map[any]bool
		if s.Fn != "" {
			seen = map[any]bool{}
		}
		for i, e := range sl {
			if msg := s.Sub[0].Contract(env, e); msg != "" {
				return fmt.Sprintf("%s: element %d: %s", s.desc(), i, msg)
			}
			if seen != nil {
				k := s.key(e)
				if seen[k] {
					return fmt.Sprintf("%s: duplicate key %v at element %d", s.desc(), k, i)
				}
				seen[k] = true
			}
		}
		return ""
	case "map", "mapvalues":
		m, ok := v.(map[any]any)
		if !ok {
			return fmt.Sprintf("%s: dynamic type %T, want map[any]any", s.desc(), v)
		}
		if msg := lenContract(s.desc(), len(m), s.Min, s.Max); msg != "" {
			return msg
		}
		for k, e := range m {
			if s.K == "map" {
				if msg := s.Sub[0].Contract(env, k); msg != "" {
					return fmt.Sprintf("%s: key: %s", s.desc(), msg)
				}
				if msg := s.Sub[1].Contract(env, e); msg != "" {
					return fmt.Sprintf("%s: value: %s", s.desc(), msg)
				}
			} else {
				if msg := s.Sub[0].Contract(env, e); msg != "" {
					return fmt.Sprintf("%s: value: %s", s.desc(), msg)
				}
				if want := s.key(e); want != k {
					return fmt.Sprintf("%s: key %v is not keyFn(value) = %v", s.desc(), k, want)
				}
			}
		}
		return ""
	case "string":
		str, ok := v.(string)
		if !ok {
			return fmt.Sprintf("%s: dynamic type %T, want string", s.desc(), v)
		}
		if !utf8.ValidString(str) {
			return fmt.Sprintf("%s: invalid UTF-8 %q", s.desc(), str)
		}
		n := utf8.RuneCountInString(str)
		if msg := lenContract(s.desc()+" (runes)", n, s.Min, s.Max); msg != "" {
			return msg
		}
		if s.MaxLen >= 0 && len(str) > s.MaxLen {
			return fmt.Sprintf("%s: byte length %d > maxLen %d", s.desc(), len(str), s.MaxLen)
		}
		rs := &GenSpec{K: "rune"}
		if len(s.Sub) > 0 {
			rs = s.Sub[0]
		}
		for _, r := range str {
			if msg := rs.runeContract(r); msg != "" {
				return fmt.Sprintf("%s: %s", s.desc(), msg)
			}
		}
		return ""
	case "strmatch":
		str, ok := v.(string)
		if !ok {
			return fmt.Sprintf("%s: dynamic type %T, want string", s.desc(), v)
		}
		if !utf8.ValidString(str) {
			return fmt.Sprintf("%s: invalid UTF-8 %q", s.desc(), str)
		}
		if !regexp.MustCompile(s.Re).MatchString(str) {
			return fmt.Sprintf("%s: %q does not match", s.desc(), str)
		}
		return ""
	case "bytesmatch":
		b, ok := v.([]byte)
		if !ok {
			return fmt.Sprintf("%s: dynamic type %T, want []byte", s.desc(), v)
		}
		if !regexp.MustCompile(s.Re).Match(b) {
			return fmt.Sprintf("%s: %q does not match", s.desc(), b)
		}
		return ""
	case "sampled":
		tg, ok := v.(Tag)
		if !ok || tg.I < 0 || tg.I >= s.N {
			return fmt.Sprintf("%s: value %#v is not an element of the input", s.desc(), v)
		}
		return s.inputIntact(env)
	case "just":
		if tg, ok := v.(Tag); !ok || tg.I != s.N {
			return fmt.Sprintf("%s: value %#v", s.desc(), v)
		}
		return ""
	case "perm":
		sl, ok := v.([]any)
		if !ok || len(sl) != s.N {
			return fmt.Sprintf("%s: value %#v is not a slice of length %d", s.desc(), v, s.N)
		}
		seen := make([]bool, s.N)
		for _, e := range sl {
			tg, ok := e.(Tag)
			if !ok || tg.I < 0 || tg.I >= s.N || seen[tg.I] {
				return fmt.Sprintf("%s: %v is not a permutation of the input", s.desc(), sl)
			}
			seen[tg.I] = true
		}
		return s.inputIntact(env)
	case "oneof":
		var msgs []string
		for _, sub := range s.Sub {
			msg := sub.Contract(env, v)
			if msg == "" {
				return ""
			}
			msgs = append(msgs, msg)
		}
		return fmt.Sprintf("%s: value satisfies no alternative: %s", s.desc(), strings.Join(msgs, " | "))
	case "ptr":
		p, ok := v.(*any)
		if !ok {
			return fmt.Sprintf("%s: dynamic type %T, want *any", s.desc(), v)
		}
		if p == nil {
			if !s.AllowNil {
				return fmt.Sprintf("%s: nil pointer although allowNil is false", s.desc())
			}
			return ""
		}
		return s.Sub[0].Contract(env, *p)
	case "deferred":
		return s.Sub[0].Contract(env, v)
	case "mapped":
		w, ok := v.(Wrapped)
		if !ok {
			return fmt.Sprintf("%s: dynamic type %T, want Wrapped", s.desc(), v)
		}
		return s.Sub[0].Contract(env, w.V)
	case "filter":
		if !s.pred(v) {
			return fmt.Sprintf("%s: predicate false for %#v (measure %d)", s.desc(), v, Measure(v))
		}
		return s.Sub[0].Contract(env, v)
	case "custom":
		cv, ok := v.(CustomVal)
		if !ok {
			return fmt.Sprintf("custom: dynamic type %T", v)
		}
		for i := range cv.Vals {
			if msg := cv.Specs[i].Contract(env, cv.Vals[i]); msg != "" {
				return fmt.Sprintf("custom: component %d: %s", i, msg)
			}
		}
		return ""
	case "make":
		want := makeTypes[s.Type].typ
		if v == nil || reflect.TypeOf(v) != want {
			return fmt.Sprintf("Make[%v]: dynamic type %T", want, v)
		}
		return ""
	}
	return "harness: unknown kind " + s.K
}

// NeverRejects reports whether the generator accepts every bitstream that is long enough: it has no predicate,
// no distinctness requirement and no length limit that could make it give up. (Conservative: false when unsure.)
func (s *GenSpec) NeverRejects() bool {
	switch s.K {
	case "int", "float", "bool", "rune", "runefrom":
		return true
	case "string":
		return s.MaxLen < 0 && (len(s.Sub) == 0 || s.Sub[0].K == "rune" || s.Sub[0].K == "runefrom")
	case "slice":
		return s.Fn == "" && s.Sub[0].NeverRejects()
	}
	return false
}

// Scribbled is what Scribble leaves behind.
type Scribbled struct{}

// Scribble overwrites, in place, every part of a drawn value that the caller of Draw owns: the slices, maps and
// pointers that the collection generators, Permutation, SliceOfBytesMatching and Ptr have to allocate afresh for
// every value. A user is free to sort or clear a drawn slice; if a returned value shared memory with the generator
// (or with the input of Permutation, or with another returned value), later values would show it. Values that
// belong to the user anyway (SampledFrom, Just, the elements of a permutation) and opaque ones are left alone.
func (s *GenSpec) Scribble(v any) {
	switch s.K {
	case "slice":
		sl, _ := v.([]any)
		for i, e := range sl {
			s.Sub[0].Scribble(e)
			sl[i] = Scribbled{}
		}
	case "map", "mapvalues":
		m, _ := v.(map[any]any)
		vs := s.Sub[len(s.Sub)-1]
		for k, e := range m {
			vs.Scribble(e)
			delete(m, k)
		}
		if m != nil {
			m[Scribbled{}] = Scribbled{}
		}
	case "perm":
		sl, _ := v.([]any)
		for i := range sl {
			sl[i] = Scribbled{}
		}
	case "bytesmatch":
		b, _ := v.([]byte)
		for i := range b {
			b[i] = 0xee
		}
	case "ptr":
		if p, _ := v.(*any); p != nil {
			s.Sub[0].Scribble(*p)
			*p = Scribbled{}
		}
	case "filter", "deferred":
		s.Sub[0].Scribble(v)
	case "mapped":
		if w, ok := v.(Wrapped); ok {
			s.Sub[0].Scribble(w.V)
		}
	case "custom":
		if cv, ok := v.(CustomVal); ok {
			for i := range cv.Vals {
				if i < len(cv.Specs) && cv.Specs[i] != nil {
					cv.Specs[i].Scribble(cv.Vals[i])
				}
			}
		}
	}
}

func (s *GenSpec) inputIntact(env *BuildEnv) string {
	in, ok := env.inputs.Load(s)
	if !ok {
		return ""
	}
	for i, e := range in.([]any) {
		if e != (Tag{i}) {
			return fmt.Sprintf("%s: the input slice was modified: element %d is now %v", s.desc(), i, e)
		}
	}
	return ""
}

func (s *GenSpec) runeContract(r rune) string {
	if s.K == "rune" {
		if !utf8.ValidRune(r) {
			return fmt.Sprintf("Rune(): invalid rune %#x", r)
		}
		return ""
	}
	if s.K == "runeint" {
		if int64(r) < s.SA || int64(r) > s.SB || !utf8.ValidRune(r) {
			return fmt.Sprintf("Int32Range(%d, %d) as rune generator: rune %#x is outside the range or not a valid rune", s.SA, s.SB, r)
		}
		return ""
	}
	for _, x := range s.Runes {
		if x == r && (s.K != "runesampled" || utf8.ValidRune(r)) {
			return ""
		}
	}
	if s.K == "runesampled" {
		return fmt.Sprintf("SampledFrom(%v) as rune generator: rune %#x was not sampled from it", s.Runes, r)
	}
	for _, n := range s.Tables {
		if unicode.Is(tableByName[n], r) {
			return ""
		}
	}
	return fmt.Sprintf("RuneFrom(%v, %v): rune %#x is in neither", s.Runes, s.Tables, r)
}

func lenContract(desc string, n, min, max int) string {
	if min >= 0 && n < min {
		return fmt.Sprintf("%s: length %d < min %d", desc, n, min)
	}
	if max >= 0 && n > max {
		return fmt.Sprintf("%s: length %d > max %d", desc, n, max)
	}
	return ""
}

func (s *GenSpec) desc() string {
	switch s.K {
	case "int":
		if intSigned(s.IK) {
			return fmt.Sprintf("%s%s(%d,%d)", s.IK, s.Mode, s.SA, s.SB)
		}
		return fmt.Sprintf("%s%s(%d,%d)", s.IK, s.Mode, s.UA, s.UB)
	case "float":
		return fmt.Sprintf("Float%d%s(%g,%g)", s.Bits, s.Mode, math.Float64frombits(s.UA), math.Float64frombits(s.UB))
	case "slice", "map", "mapvalues":
		return fmt.Sprintf("%s[%d,%d,fn=%s]", s.K, s.Min, s.Max, s.Fn)
	case "string":
		return fmt.Sprintf("string[%d,%d,%d]", s.Min, s.Max, s.MaxLen)
	case "strmatch", "bytesmatch":
		return fmt.Sprintf("%s(%q)", s.K, s.Re)
	case "filter":
		return fmt.Sprintf("filter(%s %d %d)", s.Fn, s.FM, s.FC)
	}
	return fmt.Sprintf("%s(%d)", s.K, s.N)
}

// Depth of the expression.
func (s *GenSpec) Depth() int {
	d := 0
	for _, sub := range s.Sub {
		if x := sub.Depth(); x > d {
			d = x
		}
	}
	for _, st := range s.Body {
		if st.Gen != nil {
			if x := st.Gen.Depth(); x > d {
				d = x
			}
		}
	}
	return d + 1
}

// HasKind reports whether any node of the expression has one of the kinds.
func (s *GenSpec) HasKind(kinds ...string) bool {
	for _, k := range kinds {
		if s.K == k {
			return true
		}
	}
	for _, sub := range s.Sub {
		if sub.HasKind(kinds...) {
			return true
		}
	}
	for _, st := range s.Body {
		if stmtHasGenKind(st, kinds...) {
			return true
		}
	}
	return false
}

func stmtHasGenKind(st *Stmt, kinds ...string) bool {
	if st.Gen != nil && st.Gen.HasKind(kinds...) {
		return true
	}
	for _, b := range st.Body {
		if stmtHasGenKind(b, kinds...) {
			return true
		}
	}
	for _, a := range st.Actions {
		for _, b := range a.Body {
			if stmtHasGenKind(b, kinds...) {
				return true
			}
		}
	}
	for _, b := range st.Inv {
		if stmtHasGenKind(b, kinds...) {
			return true
		}
	}
	return false
}

// Measure maps any drawn value to an integer, so that conditions are defined for every generator.
func Measure(v any) int64 {
	switch x := v.(type) {
	case nil:
		return 0
	case Tag:
		return int64(x.I)
	case Wrapped:
		return Measure(x.V)
	case CustomVal:
		var m int64
		for _, e := range x.Vals {
			m += Measure(e)
		}
		return m
	case *any:
		if x == nil {
			return 0
		}
		return 1 + Measure(*x)
	case bool:
		if x {
			return 1
		}
		return 0
	case string:
		return int64(len(x))
	case []byte:
		return int64(len(x))
	case []any:
		return int64(len(x))
	case map[any]any:
		return int64(len(x))
	case float64:
		return floatOrd(x)
	case float32:
		return floatOrd(float64(x))
	}
	rv := reflect.ValueOf(v)
	switch rv.Kind() {
	case reflect.Int, reflect.Int8, reflect.Int16, reflect.Int32, reflect.Int64:
		return rv.Int()
	case reflect.Uint, reflect.Uint8, reflect.Uint16, reflect.Uint32, reflect.Uint64, reflect.Uintptr:
		u := rv.Uint()
		if u > math.MaxInt64 {
			return math.MaxInt64
		}
		return int64(u)
	case reflect.Map:
		// typed maps (Make): the values count as well, so that conditions of generated programs can depend on what
		// is stored under a key and not only on the number of keys
		m := int64(rv.Len())
		for it := rv.MapRange(); it.Next(); {
			if it.Value().CanInterface() {
				m += Measure(it.Value().Interface()) % 1000
			}
		}
		return m
	case reflect.Struct:
		var m int64
		for i := 0; i < rv.NumField(); i++ {
			if f := rv.Field(i); f.CanInterface() && f.Kind() != reflect.Ptr {
				m += Measure(f.Interface()) % 1000
			}
		}
		return m
	case reflect.Slice, reflect.String, reflect.Array:
		return int64(rv.Len())
	case reflect.Bool:
		if rv.Bool() {
			return 1
		}
		return 0
	}
	return 0
}

// floatOrd is monotone in f and small for values near zero (sign * bits/2^40 keeps conditions interesting).
func floatOrd(f float64) int64 {
	b := int64(math.Float64bits(math.Abs(f)) >> 1)
	if f < 0 || (f == 0 && math.Signbit(f)) {
		return -b
	}
	return b
}

// Canon renders a value deterministically (pointers are dereferenced, map entries sorted, floats by bits).
func Canon(v any) string {
	var b strings.Builder
	canonRV(&b, reflect.ValueOf(v), 0)
	return b.String()
}

func canonRV(b *strings.Builder, rv reflect.Value, depth int) {
	if depth > 64 {
		b.WriteString("<deep>")
		return
	}
	if !rv.IsValid() {
		b.WriteString("nil")
		return
	}
	switch rv.Kind() {
	case reflect.Bool:
		fmt.Fprintf(b, "%v", rv.Bool())
	case reflect.Int, reflect.Int8, reflect.Int16, reflect.Int32, reflect.Int64:
		fmt.Fprintf(b, "%s(%d)", rv.Type(), rv.Int())
	case reflect.Uint, reflect.Uint8, reflect.Uint16, reflect.Uint32, reflect.Uint64, reflect.Uintptr:
		fmt.Fprintf(b, "%s(%d)", rv.Type(), rv.Uint())
	case reflect.Float32, reflect.Float64:
		fmt.Fprintf(b, "%s(%#x)", rv.Type(), math.Float64bits(rv.Float()))
	case reflect.String:
		fmt.Fprintf(b, "%q", rv.String())
	case reflect.Slice, reflect.Array:
		if rv.Kind() == reflect.Slice && rv.IsNil() {
			fmt.Fprintf(b, "%s(nil)", rv.Type())
			return
		}
		fmt.Fprintf(b, "%s[", rv.Type())
		for i := 0; i < rv.Len(); i++ {
			if i > 0 {
				b.WriteByte(',')
			}
			canonRV(b, rv.Index(i), depth+1)
		}
		b.WriteByte(']')
	case reflect.Map:
		if rv.IsNil() {
			fmt.Fprintf(b, "%s(nil)", rv.Type())
			return
		}
		var ents []string
		it := rv.MapRange()
		for it.Next() {
			var e strings.Builder
			canonRV(&e, it.Key(), depth+1)
			e.WriteByte(':')
			canonRV(&e, it.Value(), depth+1)
			ents = append(ents, e.String())
		}
		sort.Strings(ents)
		fmt.Fprintf(b, "%s{%s}", rv.Type(), strings.Join(ents, ","))
	case reflect.Pointer:
		if rv.IsNil() {
			fmt.Fprintf(b, "%s(nil)", rv.Type())
			return
		}
		b.WriteByte('&')
		canonRV(b, rv.Elem(), depth+1)
	case reflect.Interface:
		if rv.IsNil() {
			b.WriteString("nil")
			return
		}
		canonRV(b, rv.Elem(), depth+1)
	case reflect.Struct:
		if rv.Type() == reflect.TypeOf(CustomVal{}) {
			b.WriteString("Custom(")
			canonRV(b, rv.FieldByName("Vals"), depth+1)
			b.WriteByte(')')
			return
		}
		fmt.Fprintf(b, "%s{", rv.Type())
		for i := 0; i < rv.NumField(); i++ {
			if i > 0 {
				b.WriteByte(',')
			}
			canonRV(b, rv.Field(i), depth+1)
		}
		b.WriteByte('}')
	default:
		fmt.Fprintf(b, "<%s>", rv.Kind())
	}
}

// KeyedLen sums the lengths of all collections inside v whose elements went through a key function
// (distinct slices, MapOfValues): KeyCalls minus this sum is the number of duplicate keys that were rejected.
func (s *GenSpec) KeyedLen(v any) int64 {
	var n int64
	switch s.K {
	case "slice":
		sl, _ := v.([]any)
		if s.Fn != "" {
			n += int64(len(sl))
		}
		for _, e := range sl {
			n += s.Sub[0].KeyedLen(e)
		}
	case "map":
		m, _ := v.(map[any]any)
		for k, e := range m {
			n += s.Sub[0].KeyedLen(k) + s.Sub[1].KeyedLen(e)
		}
	case "mapvalues":
		m, _ := v.(map[any]any)
		n += int64(len(m))
		for _, e := range m {
			n += s.Sub[0].KeyedLen(e)
		}
	case "ptr":
		if p, _ := v.(*any); p != nil {
			n += s.Sub[0].KeyedLen(*p)
		}
	case "deferred", "filter":
		n += s.Sub[0].KeyedLen(v)
	case "mapped":
		if w, ok := v.(Wrapped); ok {
			n += s.Sub[0].KeyedLen(w.V)
		}
	case "oneof":
		// the alternative taken is not observable: count nothing (rejections are under-estimated)
	case "custom":
		if cv, ok := v.(CustomVal); ok {
			for i := range cv.Vals {
				n += cv.Specs[i].KeyedLen(cv.Vals[i])
			}
		}
	}
	return n
}
