package vh

import (
	"vh/drv"
)

// C01 - a reported failure is real.

type c01 struct{}

func init() { register(c01{}) }

func (c01) ID() string       { return "C01" }
func (c01) NewCase() any     { return &CheckCase{} }
func (c01) Cases(c *Ctx) int { return c.Pick(1500, 40000) }

func progCfgFull(c *Ctx) ProgCfg {
	return ProgCfg{
		Gen:      GenCfg{Depth: c.Pick(2, 3), RejectHeavy: true, SmallInts: true, Custom: true, CustomStmts: true, LenCap: 8, PredSignals: true, MakeFlat: true},
		MaxStmts: c.Pick(5, 7), Repeat: true, Cleanups: true, Go: true, Skips: true, SigPct: 85,
	}
}

// genShrinkSetting picks -rapid.shrinktime in {0, tiny with a sleep that lets the deadline expire at a
// generated invocation, plenty} and inserts the sleep statement.
func genShrinkSetting(dt *drv.T, cs *CheckCase) {
	switch pick(dt, "shrinkhow", "zero", "cut", "cut", "plenty", "plenty") {
	case "zero":
		cs.Cfg.ShrinkNS = 0
	case "cut":
		cs.Cfg.ShrinkNS = int64(drv.IntRange(1, 4).Draw(dt, "shrinkms")) * 1e6
		at := drv.IntRange(1, 200).Draw(dt, "cutat")
		cs.Prog.Body = append([]*Stmt{{Op: "sleep", N: at, D: cs.Cfg.ShrinkNS + 2e6}}, cs.Prog.Body...)
	default:
		cs.Cfg.ShrinkNS = 3e9
	}
}

func (c01) Gen(dt *drv.T, c *Ctx) any {
	cs := &CheckCase{}
	cs.Prog = GenProg(dt, progCfgFull(c))
	cs.Cfg = genCheckCfg(dt, "TestC01", 200)
	cs.Cfg.NoFailFile = chance(dt, "nofailfile", 30)
	genShrinkSetting(dt, cs)
	return cs
}

func (c01) Run(c *Ctx, csAny any) Outcome {
	cs := csAny.(*CheckCase)
	out := Outcome{}
	dir := EnterCaseDir()
	defer LeaveCaseDir(dir)
	r := runProg(cs.Cfg, cs.Prog)
	if r.reportedFailure() {
		out.NonTrivial = true
		out.Classes = append(out.Classes, "reported-failure", "end-"+r.Last.End)
		if r.Rejects > 0 {
			out.Classes = append(out.Classes, "run-with-rejections")
		}
		if cs.Prog.HasOp("repeat") {
			out.Classes = append(out.Classes, "state-machine")
		}
		if cs.Cfg.ShrinkNS == 0 {
			out.Classes = append(out.Classes, "shrinktime-0")
		} else if cs.Cfg.ShrinkNS < 1e9 {
			out.Classes = append(out.Classes, "shrink-cut-configured")
			if cs.Prog.Body[0].Op == "sleep" && len(r.X.Log) > cs.Prog.Body[0].N {
				out.Classes = append(out.Classes, "shrink-cut-reached")
			}
		}
	} else if r.FirstBad < 0 {
		out.Classes = append(out.Classes, "never-falsified")
	}
	if v := oracleReportIsReal(r); v != nil {
		out.Viol = prefixKey("C01", v)
		return out
	}
	if r.Rep.Kind == "failed" || r.Rep.Kind == "panic" {
		if v := oracleFailFileReplays(r, cs.Prog); v != nil {
			out.Viol = prefixKey("C01", v)
			return out
		}
		if !cs.Cfg.NoFailFile {
			out.Classes = append(out.Classes, "failfile-replayed")
		}
	}
	return out
}
