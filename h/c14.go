package vh

import (
	"context"
	"fmt"
	"runtime"
	"sync"
	"sync/atomic"
	"time"

	"pgregory.net/rapid"
	"vh/drv"
)

// C14 - T's non-drawing methods are safe to call from many goroutines (binary built with -race).

type GOp struct {
	Op    string `json:"op"`
	Yield bool   `json:"yield,omitempty"`
}

type C14Case struct {
	Gs       [][]GOp `json:"gs"`   // one op list per extra goroutine
	Main     []GOp   `json:"main"` // ops of the goroutine running the property
	Verbose  bool    `json:"verbose,omitempty"`
	Checks   int     `json:"checks"`
	Procs    int     `json:"procs"`
	Seed     uint64  `json:"seed"`
	DrawMain bool    `json:"drawmain,omitempty"`
	Late     int     `json:"late,omitempty"`     // a goroutine that registers this many cleanups while the cleanups of the test case are running
	RawLog   bool    `json:"rawlog,omitempty"`   // -rapid.log
	ShrinkMS int     `json:"shrinkms,omitempty"` // > 0: minimization attempts run the property (and its goroutines) on fresh Ts
	InCustom bool    `json:"incustom,omitempty"` // the extra goroutines run while the property's goroutine is inside a Custom generator function
	SpinFail bool    `json:"spinfail,omitempty"` // the first spinning goroutine signals a failure first and then polls Failed()
	Spin     int     `json:"spin,omitempty"`     // goroutines that call Cleanup / Failed / Name in a tight loop until the context is cancelled, while the property's goroutine runs a state machine
	LateCtx  bool    `json:"latectx,omitempty"`  // ... and asks for the context then: the property function has returned, so it must be a cancelled one
}

const spinCleanups = 5000 // cleanups one spinning goroutine registers at most

type c14 struct{}

func init() { register(c14{}) }

func (c14) ID() string       { return "C14" }
func (c14) NewCase() any     { return &C14Case{} }
func (c14) Cases(c *Ctx) int { return c.Pick(1200, 30000) }

// HangLimit: a case takes milliseconds (spin cases tenths of a second); one that has not finished after a minute
// is blocked for good (a lock that is never released), which is as much a violation of "safe to call concurrently"
// as a lost update. Confirmed by re-running the case in a fresh process before it is reported.
func (c14) HangLimit() time.Duration { return 60 * time.Second }

// RunReplay: a blocked case depends on the interleaving; the replay runs the case up to 40 times.
func (p c14) RunReplay(c *Ctx, csAny any) Outcome {
	cs := csAny.(*C14Case)
	n := 1
	if cs.Spin > 0 {
		n = 40
	}
	var out Outcome
	for i := 0; i < n; i++ {
		if out = p.Run(c, csAny); out.Viol != nil {
			break
		}
	}
	return out
}

var c14Ops = []string{"helper", "name", "log", "logf", "error", "errorf", "error0", "errorf0", "fail", "failed", "context", "context", "cleanup", "cleanup"}

func genOps(dt *drv.T, max int, quiet bool) []GOp {
	n := drv.IntRange(0, max).Draw(dt, "nops")
	ops := make([]GOp, n)
	for i := range ops {
		op := pick(dt, "op", c14Ops...)
		if quiet && (op == "error" || op == "errorf" || op == "fail" || op == "error0" || op == "errorf0") {
			op = "failed"
		}
		ops[i] = GOp{Op: op, Yield: chance(dt, "yield", 30)}
	}
	return ops
}

func (c14) Gen(dt *drv.T, c *Ctx) any {
	cs := &C14Case{}
	g := drv.IntRange(1, 15).Draw(dt, "goroutines")
	quiet := chance(dt, "nofail", 50) // half of the cases never signal, so that several test cases run on the reused T
	for i := 0; i < g; i++ {
		cs.Gs = append(cs.Gs, genOps(dt, 12, quiet))
	}
	cs.Main = genOps(dt, 12, quiet)
	cs.Verbose = drv.Bool().Draw(dt, "verbose")
	cs.Checks = drv.IntRange(1, 5).Draw(dt, "checks")
	cs.Procs = pick(dt, "procs", 2, 4, 16)
	cs.Seed = drv.Uint64Range(1, 1<<40).Draw(dt, "seed")
	cs.DrawMain = drv.Bool().Draw(dt, "drawmain")
	cs.RawLog = chance(dt, "rawlog", 30)
	cs.InCustom = chance(dt, "incustom", 30)
	if !quiet && chance(dt, "shrink", 40) {
		cs.ShrinkMS = pick(dt, "shrinkms", 2, 10)
	}
	if chance(dt, "spin", 6) {
		cs.Spin = drv.IntRange(1, 4).Draw(dt, "nspin")
		cs.SpinFail = cs.Spin >= 2 && drv.Bool().Draw(dt, "spinfail")
		if cs.Procs < 4 {
			cs.Procs = 4
		}
	}
	if chance(dt, "late", 35) {
		cs.Late = drv.IntRange(1, 40).Draw(dt, "nlate")
		cs.LateCtx = drv.Bool().Draw(dt, "latectx")
	}
	return cs
}

type c14Inv struct {
	registered int32
	runs       []int32
	signalled  int32
	ctxs       [][]context.Context // per goroutine (index len(Gs) = main)
	live       [][]bool
	failedLie  int32 // Failed() returned false right after the goroutine's own Error/Errorf/Fail
	lateLive   int32 // a context obtained while the cleanups were running was not cancelled
}

func (iv *c14Inv) validate() *Violation {
	n := int(atomic.LoadInt32(&iv.registered))
	for i := 0; i < n; i++ {
		if r := atomic.LoadInt32(&iv.runs[i]); r != 1 {
			return violf("C14:cleanup-count", "cleanup %d of %d registered concurrently ran %d times", i, n, r)
		}
	}
	var first context.Context
	for g := range iv.ctxs {
		for i, cx := range iv.ctxs[g] {
			if !iv.live[g][i] {
				return violf("C14:context-not-live", "goroutine %d got a cancelled context while the property was running", g)
			}
			if first == nil {
				first = cx
			} else if cx != first {
				return violf("C14:context-not-unique", "goroutines observed different contexts within one invocation")
			}
		}
	}
	if atomic.LoadInt32(&iv.lateLive) > 0 {
		return violf("C14:context-live-after-return", "a goroutine that called T.Context() while the cleanups of the test case were running got a context that is not cancelled")
	}
	if atomic.LoadInt32(&iv.failedLie) > 0 {
		return violf("C14:failed-false-after-error", "Failed() returned false right after the same goroutine called Error/Errorf/Fail")
	}
	return nil
}

func (cs *C14Case) exec(t *rapid.T, iv *c14Inv, g int, ops []GOp) {
	for i, op := range ops {
		switch op.Op {
		case "helper":
			t.Helper()
		case "name":
			_ = t.Name()
		case "log":
			t.Log("log", g, i)
		case "logf":
			t.Logf("logf %d %d", g, i)
		case "error", "errorf", "fail", "error0", "errorf0":
			atomic.StoreInt32(&iv.signalled, 1)
			switch op.Op {
			case "error":
				t.Error("error", g, i)
			case "errorf":
				t.Errorf("errorf %d %d", g, i)
			case "error0":
				t.Error() // no message: still a failure
			case "errorf0":
				t.Errorf("")
			default:
				t.Fail()
			}
			if !t.Failed() {
				atomic.AddInt32(&iv.failedLie, 1)
			}
		case "failed":
			_ = t.Failed()
		case "context":
			cx := t.Context()
			iv.ctxs[g] = append(iv.ctxs[g], cx)
			iv.live[g] = append(iv.live[g], cx.Err() == nil)
		case "cleanup":
			id := atomic.AddInt32(&iv.registered, 1) - 1
			t.Cleanup(func() { atomic.AddInt32(&iv.runs[id], 1) })
		}
		if op.Yield {
			runtime.Gosched()
		}
	}
}

func (c14) Run(c *Ctx, csAny any) Outcome {
	cs := csAny.(*C14Case)
	out := Outcome{}
	dir := EnterCaseDir()
	defer LeaveCaseDir(dir)
	old := runtime.GOMAXPROCS(cs.Procs)
	defer runtime.GOMAXPROCS(old)
	rw := getRaceWatch()
	rw.New()

	total := len(cs.Main)
	mutators := 0
	for _, g := range append(append([][]GOp{}, cs.Gs...), cs.Main) {
		total += len(g)
		for _, op := range g {
			if op.Op == "error" || op.Op == "errorf" || op.Op == "error0" || op.Op == "errorf0" || op.Op == "fail" || op.Op == "cleanup" || op.Op == "context" {
				mutators++
				break
			}
		}
	}
	var invs []*c14Inv
	var viol *Violation
	intGen := rapid.Int()
	var inCustom func()
	customGen := rapid.Custom(func(ct *rapid.T) int {
		inCustom()
		return rapid.IntRange(0, 3).Draw(ct, "x")
	})
	prop := func(t *rapid.T) {
		if n := len(invs); n > 0 && viol == nil {
			viol = invs[n-1].validate()
		}
		iv := &c14Inv{runs: make([]int32, total+cs.Late+4+cs.Spin*spinCleanups), ctxs: make([][]context.Context, len(cs.Gs)+1), live: make([][]bool, len(cs.Gs)+1)}
		invs = append(invs, iv)
		if cs.DrawMain {
			intGen.Draw(t, "x")
		}
		var released, lateDone chan struct{}
		if cs.Late > 0 {
			// registered first, so it runs last: waits for the late registrar, whose cleanups then still have to run
			released, lateDone = make(chan struct{}), make(chan struct{})
			t.Cleanup(func() { <-lateDone })
			// registered last, also when the property is left early (a draw that runs out of data): the first cleanup to run
			defer func() { t.Cleanup(func() { close(released) }) }()
			go func() {
				defer close(lateDone)
				<-released // the cleanups of this test case have started to run
				if cs.LateCtx {
					if cx := t.Context(); cx.Err() == nil {
						atomic.StoreInt32(&iv.lateLive, 1)
					}
				}
				for i := 0; i < cs.Late; i++ {
					id := atomic.AddInt32(&iv.registered, 1) - 1
					t.Cleanup(func() { atomic.AddInt32(&iv.runs[id], 1) })
					if i%3 == 0 {
						runtime.Gosched()
					}
				}
			}()
		}
		if cs.Spin > 0 {
			// writers and readers of T's state in a tight loop for as long as the test case runs, while this goroutine
			// goes through a state machine (the library looks at the failure state of T after every step)
			cx := t.Context()
			var spinWG sync.WaitGroup
			t.Cleanup(func() { spinWG.Wait() }) // registered first: runs last, after the spinners have seen the cancellation
			for s := 0; s < cs.Spin; s++ {
				spinWG.Add(1)
				go func(s int) {
					defer spinWG.Done()
					own := false
					if s == 0 && cs.SpinFail {
						// this goroutine has signalled a failure: from now on Failed() must say so, whatever the
						// other goroutines are doing to T in the meantime
						atomic.StoreInt32(&iv.signalled, 1)
						t.Errorf("spin %d", s)
						own = true
					}
					for n := 0; cx.Err() == nil && n < 4*spinCleanups; n++ {
						if own && n%2 == 1 {
							if !t.Failed() {
								atomic.AddInt32(&iv.failedLie, 1)
							}
							continue
						}
						switch {
						case n%2 == 0 && n/2 < spinCleanups:
							id := atomic.AddInt32(&iv.registered, 1) - 1
							t.Cleanup(func() { atomic.AddInt32(&iv.runs[id], 1) })
						case n%4 == 1:
							_ = t.Failed()
						default:
							_ = t.Name()
						}
					}
				}(s)
			}
			t.Repeat(map[string]func(*rapid.T){
				"a": func(t *rapid.T) { rapid.Bool().Draw(t, "a") },
				"b": func(t *rapid.T) { _ = t.Failed() },
				"":  func(t *rapid.T) { t.Helper() },
			})
		}
		start := make(chan struct{})
		var wg sync.WaitGroup
		for g := range cs.Gs {
			wg.Add(1)
			go func(g int) {
				defer wg.Done()
				<-start
				cs.exec(t, iv, g, cs.Gs[g])
			}(g)
		}
		if cs.InCustom {
			// everything the other goroutines do on t happens while this goroutine is inside a Custom function (which
			// has a T of its own)
			var once sync.Once // the function is called again when its attempt runs out of data (minimization candidates)
			inCustom = func() { once.Do(func() { close(start); wg.Wait() }) }
			customGen.Draw(t, "c")
			cs.exec(t, iv, len(cs.Gs), cs.Main)
		} else {
			close(start)
			cs.exec(t, iv, len(cs.Gs), cs.Main)
			wg.Wait()
		}

	}
	obs := RunCheck(CheckCfg{Name: "TestC14", Seed: cs.Seed, Checks: cs.Checks, ShrinkNS: int64(cs.ShrinkMS) * 1e6, NoFailFile: true, Verbose: cs.Verbose, Log: cs.RawLog}, prop)
	if n := len(invs); n > 0 && viol == nil {
		viol = invs[n-1].validate()
	}
	out.NonTrivial = mutators >= 2
	out.Classes = append(out.Classes, fmt.Sprintf("goroutines-%02d", len(cs.Gs)+1))
	if cs.Verbose {
		out.Classes = append(out.Classes, "verbose")
	}
	if cs.RawLog {
		out.Classes = append(out.Classes, "rapid.log")
	}
	if cs.InCustom {
		out.Classes = append(out.Classes, "goroutines-run-while-inside-a-Custom-function")
	}
	if cs.ShrinkMS > 0 {
		out.Classes = append(out.Classes, "with-minimization-attempts")
	}
	if len(invs) > 1 {
		out.Classes = append(out.Classes, "T-reused-or-replayed")
	}
	if cs.Late > 0 {
		out.Classes = append(out.Classes, "cleanups-registered-while-cleaning-up")
	}
	if cs.Spin > 0 {
		out.Classes = append(out.Classes, "spinning-goroutines-during-a-state-machine")
	}
	if rep := rw.New(); rep != "" {
		key, lib, sum := raceKey(rep)
		if lib {
			out.Viol = violf("C14:"+key, "data race: %s", sum)
		} else {
			out.Viol = violf("C14:race-outside-library", "data race without a library frame (harness?): %s", sum)
		}
		return out
	}
	if obs.Escaped != nil {
		out.Viol = violf("C14:panic-escaped-check", "a panic escaped rapid.Check: %v", obs.Escaped)
		return out
	}
	if viol != nil {
		out.Viol = viol
		return out
	}
	signalled := false
	for _, iv := range invs {
		if atomic.LoadInt32(&iv.signalled) == 1 {
			signalled = true
		}
	}
	if signalled {
		out.Classes = append(out.Classes, "signalled")
	}
	if signalled != obs.Failed {
		out.Viol = violf("C14:lost-update:failure", "a goroutine signalled a failure: %v, test failed: %v", signalled, obs.Failed)
	}
	return out
}

var (
	raceWatchOnce sync.Once
	raceWatcher   *raceWatch
)

func getRaceWatch() *raceWatch {
	raceWatchOnce.Do(func() { raceWatcher = newRaceWatch() })
	return raceWatcher
}
