package vh

import "pgregory.net/rapid"

func smActions(kind string, actions map[string]func(*rapid.T)) map[string]func(*rapid.T) {
	return actions
}

func childMain() {}
