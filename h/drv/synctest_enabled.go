//go:build go1.25

package drv

import (
	"testing"
	"testing/synctest"
)

// SyncTest runs prop within a testing/synctest bubble.
// Callers must already be executing inside a rapid.Check-style helper;
// SyncTest forwards failures to the parent *rapid.T and restores its state afterwards.
func SyncTest(t *T, prop func(*T)) {
	if t == nil {
		panic("rapid.SyncTest requires *rapid.T")
	}

	t.Helper()

	testT, ok := underlyingTestingT(t.tb)
	if !ok {
		t.Fatalf("[rapid] SyncTest requires a *testing.T backing the current rapid test")
		return
	}

	syncTestWithinRapid(t, testT, prop)
}

func syncTestWithinRapid(t *T, parent *testing.T, prop func(*T)) {
	// synctest.Test converts failures inside the bubble into parent.FailNow (runtime.Goexit),
	// which would bypass rapid's panic-based failure capture/shrinking. Run the bubble in a
	// separate goroutine, swallow failures inside the bubble, and re-panic outside as a
	// *testError so checkOnce can shrink and generate failfiles as usual.
	resultCh := make(chan *testError, 1)

	go func() {
		var captured *testError
		returned := false
		defer func() {
			if r := recover(); r != nil {
				captured = panicToError(r, 3)
			} else if !returned && captured == nil {
				captured = panicToError(stopTest("[rapid] SyncTest aborted via testing.FailNow"), 3)
			}
			resultCh <- captured
		}()

		synctest.Test(parent, func(st *testing.T) {
			st.Helper()

			prevTB := t.tb
			prevTBLog := t.tbLog // preserved so we keep the original logging behaviour
			prevCtx := t.ctx
			prevCancel := t.cancelCtx
			prevCleanups := t.cleanups
			prevCleaning := t.cleaning.Load()

			t.tb = st
			// Reset per-run state before the property runs in the bubble.
			// No lock is needed because no other goroutine touches t before we hand control to prop.
			t.ctx = nil
			t.cancelCtx = nil
			t.cleanups = nil
			t.cleaning.Store(false)

			var panicValue any
			defer func() {
				if r := recover(); r != nil {
					panicValue = r
				}

				func() {
					// Always run rapid cleanups, even if the property panicked.
					defer func() {
						if r := recover(); r != nil {
							panicValue = r
						}
					}()
					t.cleanup()
				}()

				t.tb = prevTB
				t.tbLog = prevTBLog
				t.ctx = prevCtx
				t.cancelCtx = prevCancel
				t.cleanups = prevCleanups
				t.cleaning.Store(prevCleaning)

				if panicValue != nil {
					captured = panicToError(panicValue, 3)
				}
			}()

			prop(t)
			t.failOnError()
		})

		returned = true
	}()

	if err := <-resultCh; err != nil {
		panic(err)
	}
}

// underlyingTestingT returns the *testing.T associated with tb, if any.
func underlyingTestingT(tbValue TB) (*testing.T, bool) {
	if tbValue == nil {
		return nil, false
	}
	return underlyingTestingTPrivate(tb(tbValue))
}

func underlyingTestingTPrivate(tb tb) (*testing.T, bool) {
	// Some rapid helpers clone the TB they receive by wrapping it in a new *rapid.T.
	// This happens, for example, when Custom generators spin up helper *T instances.
	// When SyncTest needs the underlying *testing.T we peel through any number of *rapid.T
	// layers until we reach the real testing object.
	switch t := any(tb).(type) {
	case *testing.T:
		return t, true
	case *T:
		return underlyingTestingTPrivate(t.tb)
	case nilTB:
		return nil, false
	default:
		return nil, false
	}
}
