package vh

import (
	"fmt"
	"regexp"
	"strconv"

	"vh/drv"
)

// C11 - test cases are isolated: every order of {pass, Errorf, Skip, Errorf+Skip, cleanup-time Errorf, ...}
// occurs as a sequence of test cases on the reused T.

type c11 struct{}

func init() { register(c11{}) }

func (c11) ID() string       { return "C11" }
func (c11) NewCase() any     { return &CheckCase{} }
func (c11) Cases(c *Ctx) int { return c.Pick(2000, 40000) }

var c11Modes = []string{"pass", "errorf", "skip", "errorf+skip", "cleanup-errorf", "cleanup-errorf+skip", "fatalf", "cleanup", "cleanup", "ctx", "ctx", "ctx+cleanup-ctx", "go-errorf", "go-errorf+skip", "log",
	"cleanup-errorf+cleanup-skip", "cleanup+cleanup-skip", "cleanup-skip"}

func c11Block(mode string, site int) []*Stmt {
	errorf := &Stmt{Op: "sig", Kind: []string{"Errorf", "Error", "Fail"}[site%3], Site: site}
	skip := &Stmt{Op: "skip", Kind: skipKinds[site%3]}
	switch mode {
	case "errorf":
		return []*Stmt{errorf}
	case "skip":
		return []*Stmt{skip}
	case "errorf+skip":
		return []*Stmt{errorf, skip}
	case "cleanup-errorf":
		return []*Stmt{{Op: "cleanup", Body: []*Stmt{errorf}}}
	case "cleanup-errorf+skip":
		return []*Stmt{{Op: "cleanup", Body: []*Stmt{errorf}}, skip}
	case "fatalf":
		return []*Stmt{{Op: "sig", Kind: "Fatalf", Site: site}}
	case "cleanup":
		return []*Stmt{{Op: "cleanup", Body: []*Stmt{{Op: "ctx"}}}}
	case "ctx":
		return []*Stmt{{Op: "ctx"}}
	case "ctx+cleanup-ctx":
		return []*Stmt{{Op: "ctx"}, {Op: "cleanup", Body: []*Stmt{{Op: "ctx"}}}, {Op: "ctx"}}
	case "go-errorf":
		return []*Stmt{{Op: "go", Body: []*Stmt{errorf}}}
	case "go-errorf+skip":
		return []*Stmt{{Op: "go", Body: []*Stmt{errorf}}, skip}
	case "log":
		return []*Stmt{{Op: "log", N: 5}}
	case "cleanup-errorf+cleanup-skip":
		// two cleanups: the one registered last (it runs first) declares the test case invalid, the other one fails it
		return []*Stmt{{Op: "cleanup", Body: []*Stmt{errorf}}, {Op: "cleanup", Body: []*Stmt{skip}}}
	case "cleanup+cleanup-skip":
		return []*Stmt{{Op: "cleanup", Body: []*Stmt{{Op: "ctx"}}}, {Op: "cleanup", Body: []*Stmt{{Op: "log", N: 2}}}, {Op: "cleanup", Body: []*Stmt{skip}}}
	case "cleanup-skip":
		return []*Stmt{{Op: "cleanup", Body: []*Stmt{skip}}}
	}
	return nil
}

func (c11) Gen(dt *drv.T, c *Ctx) any {
	cs := &CheckCase{}
	// the mode of each test case is selected by its first draw; failing modes are made rare so that several
	// non-failing cases (incl. skipped ones and ones with pending non-fatal flags) precede and follow them
	width := pick(dt, "width", 4, 8, 16, 40)
	p := &Prog{}
	p.Body = append(p.Body, &Stmt{Op: "draw", Label: "mode", Gen: &GenSpec{K: "int", IK: "Int", Mode: "range", SA: 0, SB: int64(width - 1)}})
	p.Body = append(p.Body, &Stmt{Op: "draw", Label: "v", Gen: &GenSpec{K: "int", IK: "Int16"}})
	if chance(dt, "bigset", 5) {
		// many distinct elements out of a domain that is only a little larger: some test cases are rejected in the middle
		// of this draw (too many duplicates); what they leave behind in the generator must not reach the next test case
		n := drv.IntRange(16, 24).Draw(dt, "bign")
		p.Body = append(p.Body, &Stmt{Op: "draw", Label: "set", Gen: &GenSpec{K: "slice", Min: n, Max: -1, Fn: "id", Sub: []*GenSpec{{K: "int", IK: "Int", Mode: "range", SA: 0, SB: int64(n + n/4)}}}})
	}
	nm := drv.IntRange(1, width).Draw(dt, "nmodes")
	if nm > 6 {
		nm = 6
	}
	used := map[int]bool{}
	for i := 0; i < nm; i++ {
		k := drv.IntRange(0, width-1).Draw(dt, "slot")
		if used[k] {
			continue
		}
		used[k] = true
		mode := pick(dt, "modekind", c11Modes...)
		p.Body = append(p.Body, &Stmt{Op: "if", Cond: &Cond{Draw: 0, Op: "eq", C: int64(k)}, Body: c11Block(mode, i)})
	}
	if chance(dt, "precondition", 30) {
		// one test case of the random search (not the first) ends before it has drawn anything: its precondition does
		// not hold that time. The only statement that looks at the invocation count; it is off once a failure was found
		n := drv.IntRange(1, 12).Draw(dt, "preat")
		p.Body = append([]*Stmt{{Op: "ifinv", Kind: "gen", N: n, Body: []*Stmt{{Op: "skip", Kind: pick(dt, "preskip", skipKinds...)}}}}, p.Body...)
	}
	cs.Prog = p
	cs.Cfg = genCheckCfg(dt, "TestC11", 100)
	if cs.Cfg.Checks < 2 {
		cs.Cfg.Checks = 2
	}
	cs.Cfg.Verbose = true
	cs.Cfg.NoFailFile = true
	cs.Cfg.ShrinkNS = pick(dt, "shrink", int64(0), 2e7, plentyNS)
	if len(p.Body) > 2 && p.Body[2].Label == "set" && cs.Cfg.ShrinkNS == plentyNS {
		cs.Cfg.ShrinkNS = 2e7 // minimizing a set of 40 distinct values to the end takes minutes and adds nothing here
	}
	return cs
}

var reTestFailed = regexp.MustCompile(`^\[rapid\] test #(\d+) failed`)

func (c11) Run(c *Ctx, csAny any) Outcome {
	cs := csAny.(*CheckCase)
	out := Outcome{}
	dir := EnterCaseDir()
	defer LeaveCaseDir(dir)
	// the context / cleanup brackets of every invocation (C10's validator): on the reused T a context or a cleanup
	// of one test case that shows up in another is state carried over
	var bracket *Violation
	r := runProgHook(cs.Cfg, cs.Prog, func(inv *Invocation) {
		if bracket == nil {
			if key, msg := validateBrackets(inv); key != "" {
				bracket = violf("C11:carried-over:"+key, "invocation %d (ended %s; earlier cases: %s): %s; trace: %s", inv.Idx, inv.End, "", msg, bracketTrace(inv))
			}
		}
	})

	// which case does the library blame? ("[rapid] test #k failed" is logged with -rapid.v)
	blamed := -1
	for _, m := range r.Obs.Msgs {
		if mm := reTestFailed.FindStringSubmatch(m.Text); mm != nil {
			blamed, _ = strconv.Atoi(mm[1])
			break
		}
	}
	// non-triviality: at least two test cases ran and an earlier one left something behind that could carry over
	// into a later one (a skip, a registered cleanup, a context, a non-fatal flag)
	carry := false
	var seq string
	ran := len(r.X.Log)
	if blamed > 0 && blamed < ran {
		ran = blamed
	}
	for i := 0; i < ran; i++ {
		inv := r.X.Log[i]
		if i < ran-1 && (inv.Skips > 0 || inv.NFCount > 0 || invHas(inv, "creg") || invHas(inv, "ctx")) {
			carry = true
		}
		if i < 3 {
			seq += inv.End + ">"
		}
	}
	out.NonTrivial = carry
	if carry {
		out.Classes = append(out.Classes, "earlier-case-left-state")
	}
	out.Classes = append(out.Classes, "first3:"+seq)

	if r.Obs.Escaped != nil {
		out.Viol = violf("C11:panic-escaped-check", "a panic escaped rapid.Check: %v", r.Obs.Escaped)
		return out
	}
	if r.Rep.Kind == "flaky" {
		out.Viol = violf("C11:flaky", "Check called a deterministic property flaky: blamed test #%d, ground truth of that invocation: %s", blamed, invEnd(r.X, blamed-1))
		return out
	}
	if blamed > 0 {
		out.Classes = append(out.Classes, "blamed")
		if blamed-1 >= len(r.X.Log) {
			out.Viol = violf("C11:blamed-unknown-case", "test #%d blamed but only %d invocations happened", blamed, len(r.X.Log))
			return out
		}
		inv := r.X.Log[blamed-1]
		if !inv.Falsified {
			out.Viol = violf("C11:blamed-innocent-case", "test #%d is treated as falsifying but nothing failed in it (it ended %q); earlier cases: %s", blamed, inv.End, endsBefore(r.X, blamed-1))
			return out
		}
		for i := 0; i < blamed-1; i++ {
			if r.X.Log[i].Falsified {
				out.Viol = violf("C11:falsified-case-not-blamed", "test #%d falsified the property (ended %q) but the run went on and blamed test #%d", i+1, r.X.Log[i].End, blamed)
				return out
			}
		}
	} else if r.FirstBad >= 0 && r.Rep.Kind != "only" {
		out.Viol = violf("C11:falsified-case-not-blamed", "test #%d falsified the property (ended %q) but no case was blamed (report %q)", r.FirstBad+1, r.X.Log[r.FirstBad].End, r.Rep.Kind)
		return out
	}
	if v := oracleReportIsReal(r); v != nil {
		out.Viol = prefixKey("C11", v)
		return out
	}
	if bracket != nil {
		out.Viol = bracket
		return out
	}
	// the same run without -rapid.v must execute exactly the same test cases
	cfg2 := cs.Cfg
	cfg2.Verbose = false
	if cs.Cfg.ShrinkNS == 0 || cs.Cfg.ShrinkNS == plentyNS {
		r2 := runProg(cfg2, cs.Prog)
		if v := compareRuns(cs.Cfg, r, r2, "with and without -rapid.v"); v != nil {
			out.Viol = prefixKey("C11", v)
			out.Viol.Key = "C11:verbose-changes-run"
			return out
		}
	}
	return out
}

func invEnd(x *Interp, i int) string {
	if i < 0 || i >= len(x.Log) {
		return "?"
	}
	return fmt.Sprintf("ended %q, falsified=%v", x.Log[i].End, x.Log[i].Falsified)
}

func endsBefore(x *Interp, i int) string {
	s := ""
	for j := 0; j < i && j < len(x.Log); j++ {
		if j >= i-6 {
			s += x.Log[j].End + " "
		}
	}
	return s
}

func invHas(inv *Invocation, k string) bool {
	for _, e := range inv.Events {
		if e.K == k {
			return true
		}
	}
	return false
}
