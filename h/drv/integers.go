// Copyright 2019 Gregory Petrosyan <gregory.petrosyan@gmail.com>
//
// This Source Code Form is subject to the terms of the Mozilla Public
// License, v. 2.0. If a copy of the MPL was not distributed with this
// file, You can obtain one at https://mozilla.org/MPL/2.0/.

package drv

import (
	"fmt"
	"math"
)

const (
	byteKind    = "Byte"
	intKind     = "Int"
	int8Kind    = "Int8"
	int16Kind   = "Int16"
	int32Kind   = "Int32"
	int64Kind   = "Int64"
	uintKind    = "Uint"
	uint8Kind   = "Uint8"
	uint16Kind  = "Uint16"
	uint32Kind  = "Uint32"
	uint64Kind  = "Uint64"
	uintptrKind = "Uintptr"

	uintptrSize = 32 << (^uintptr(0) >> 32 & 1)
	uintSize    = 32 << (^uint(0) >> 32 & 1)
	intSize     = uintSize

	maxUintptr = 1<<(uint(uintptrSize)) - 1
)

var (
	integerKindToInfo = map[string]integerKindInfo{
		byteKind:    {size: 1, umax: math.MaxUint8},
		intKind:     {signed: true, size: intSize / 8, smin: math.MinInt, smax: math.MaxInt},
		int8Kind:    {signed: true, size: 1, smin: math.MinInt8, smax: math.MaxInt8},
		int16Kind:   {signed: true, size: 2, smin: math.MinInt16, smax: math.MaxInt16},
		int32Kind:   {signed: true, size: 4, smin: math.MinInt32, smax: math.MaxInt32},
		int64Kind:   {signed: true, size: 8, smin: math.MinInt64, smax: math.MaxInt64},
		uintKind:    {size: uintSize / 8, umax: math.MaxUint},
		uint8Kind:   {size: 1, umax: math.MaxUint8},
		uint16Kind:  {size: 2, umax: math.MaxUint16},
		uint32Kind:  {size: 4, umax: math.MaxUint32},
		uint64Kind:  {size: 8, umax: math.MaxUint64},
		uintptrKind: {size: uintptrSize / 8, umax: maxUintptr},
	}
)

type integer interface {
	~int | ~int8 | ~int16 | ~int32 | ~int64 |
		~uint | ~uint8 | ~uint16 | ~uint32 | ~uint64 | ~uintptr
}

type integerKindInfo struct {
	signed bool
	size   int
	smin   int64
	smax   int64
	umax   uint64
}

type boolGen struct{}

func Bool() *Generator[bool]       { return newGenerator[bool](&boolGen{}) }
func (g *boolGen) String() string  { return "Bool()" }
func (g *boolGen) value(t *T) bool { return t.s.drawBits(1) == 1 }

func Byte() *Generator[byte]       { return newIntegerGen[byte](byteKind) }
func Int() *Generator[int]         { return newIntegerGen[int](intKind) }
func Int8() *Generator[int8]       { return newIntegerGen[int8](int8Kind) }
func Int16() *Generator[int16]     { return newIntegerGen[int16](int16Kind) }
func Int32() *Generator[int32]     { return newIntegerGen[int32](int32Kind) }
func Int64() *Generator[int64]     { return newIntegerGen[int64](int64Kind) }
func Uint() *Generator[uint]       { return newIntegerGen[uint](uintKind) }
func Uint8() *Generator[uint8]     { return newIntegerGen[uint8](uint8Kind) }
func Uint16() *Generator[uint16]   { return newIntegerGen[uint16](uint16Kind) }
func Uint32() *Generator[uint32]   { return newIntegerGen[uint32](uint32Kind) }
func Uint64() *Generator[uint64]   { return newIntegerGen[uint64](uint64Kind) }
func Uintptr() *Generator[uintptr] { return newIntegerGen[uintptr](uintptrKind) }

func ByteMin(min byte) *Generator[byte]       { return newUintMinGen[byte](byteKind, uint64(min)) }
func IntMin(min int) *Generator[int]          { return newIntMinGen[int](intKind, int64(min)) }
func Int8Min(min int8) *Generator[int8]       { return newIntMinGen[int8](int8Kind, int64(min)) }
func Int16Min(min int16) *Generator[int16]    { return newIntMinGen[int16](int16Kind, int64(min)) }
func Int32Min(min int32) *Generator[int32]    { return newIntMinGen[int32](int32Kind, int64(min)) }
func Int64Min(min int64) *Generator[int64]    { return newIntMinGen[int64](int64Kind, min) }
func UintMin(min uint) *Generator[uint]       { return newUintMinGen[uint](uintKind, uint64(min)) }
func Uint8Min(min uint8) *Generator[uint8]    { return newUintMinGen[uint8](uint8Kind, uint64(min)) }
func Uint16Min(min uint16) *Generator[uint16] { return newUintMinGen[uint16](uint16Kind, uint64(min)) }
func Uint32Min(min uint32) *Generator[uint32] { return newUintMinGen[uint32](uint32Kind, uint64(min)) }
func Uint64Min(min uint64) *Generator[uint64] { return newUintMinGen[uint64](uint64Kind, min) }
func UintptrMin(min uintptr) *Generator[uintptr] {
	return newUintMinGen[uintptr](uintptrKind, uint64(min))
}

func ByteMax(max byte) *Generator[byte]       { return newUintMaxGen[byte](byteKind, uint64(max)) }
func IntMax(max int) *Generator[int]          { return newIntMaxGen[int](intKind, int64(max)) }
func Int8Max(max int8) *Generator[int8]       { return newIntMaxGen[int8](int8Kind, int64(max)) }
func Int16Max(max int16) *Generator[int16]    { return newIntMaxGen[int16](int16Kind, int64(max)) }
func Int32Max(max int32) *Generator[int32]    { return newIntMaxGen[int32](int32Kind, int64(max)) }
func Int64Max(max int64) *Generator[int64]    { return newIntMaxGen[int64](int64Kind, max) }
func UintMax(max uint) *Generator[uint]       { return newUintMaxGen[uint](uintKind, uint64(max)) }
func Uint8Max(max uint8) *Generator[uint8]    { return newUintMaxGen[uint8](uint8Kind, uint64(max)) }
func Uint16Max(max uint16) *Generator[uint16] { return newUintMaxGen[uint16](uint16Kind, uint64(max)) }
func Uint32Max(max uint32) *Generator[uint32] { return newUintMaxGen[uint32](uint32Kind, uint64(max)) }
func Uint64Max(max uint64) *Generator[uint64] { return newUintMaxGen[uint64](uint64Kind, max) }
func UintptrMax(max uintptr) *Generator[uintptr] {
	return newUintMaxGen[uintptr](uintptrKind, uint64(max))
}

func ByteRange(min byte, max byte) *Generator[byte] {
	return newUintRangeGen[byte](byteKind, uint64(min), uint64(max))
}
func IntRange(min int, max int) *Generator[int] {
	return newIntRangeGen[int](intKind, int64(min), int64(max))
}
func Int8Range(min int8, max int8) *Generator[int8] {
	return newIntRangeGen[int8](int8Kind, int64(min), int64(max))
}
func Int16Range(min int16, max int16) *Generator[int16] {
	return newIntRangeGen[int16](int16Kind, int64(min), int64(max))
}
func Int32Range(min int32, max int32) *Generator[int32] {
	return newIntRangeGen[int32](int32Kind, int64(min), int64(max))
}
func Int64Range(min int64, max int64) *Generator[int64] {
	return newIntRangeGen[int64](int64Kind, min, max)
}
func UintRange(min uint, max uint) *Generator[uint] {
	return newUintRangeGen[uint](uintKind, uint64(min), uint64(max))
}
func Uint8Range(min uint8, max uint8) *Generator[uint8] {
	return newUintRangeGen[uint8](uint8Kind, uint64(min), uint64(max))
}
func Uint16Range(min uint16, max uint16) *Generator[uint16] {
	return newUintRangeGen[uint16](uint16Kind, uint64(min), uint64(max))
}
func Uint32Range(min uint32, max uint32) *Generator[uint32] {
	return newUintRangeGen[uint32](uint32Kind, uint64(min), uint64(max))
}
func Uint64Range(min uint64, max uint64) *Generator[uint64] {
	return newUintRangeGen[uint64](uint64Kind, min, max)
}
func UintptrRange(min uintptr, max uintptr) *Generator[uintptr] {
	return newUintRangeGen[uintptr](uintptrKind, uint64(min), uint64(max))
}

func newIntegerGen[I integer](kind string) *Generator[I] {
	return newGenerator[I](&integerGen[I]{
		integerKindInfo: integerKindToInfo[kind],
		kind:            kind,
	})
}

func newIntRangeGen[I integer](kind string, min int64, max int64) *Generator[I] {
	assertf(min <= max, "invalid integer range [%v, %v]", min, max)

	g := &integerGen[I]{
		integerKindInfo: integerKindToInfo[kind],
		kind:            kind,
		hasMin:          true,
		hasMax:          true,
	}
	g.smin = min
	g.smax = max

	return newGenerator[I](g)
}

func newIntMinGen[I integer](kind string, min int64) *Generator[I] {
	g := &integerGen[I]{
		integerKindInfo: integerKindToInfo[kind],
		kind:            kind,
		hasMin:          true,
	}
	g.smin = min

	return newGenerator[I](g)
}

func newIntMaxGen[I integer](kind string, max int64) *Generator[I] {
	g := &integerGen[I]{
		integerKindInfo: integerKindToInfo[kind],
		kind:            kind,
		hasMax:          true,
	}
	g.smax = max

	return newGenerator[I](g)
}

func newUintRangeGen[I integer](kind string, min uint64, max uint64) *Generator[I] {
	assertf(min <= max, "invalid integer range [%v, %v]", min, max)

	g := &integerGen[I]{
		integerKindInfo: integerKindToInfo[kind],
		kind:            kind,
		hasMin:          true,
		hasMax:          true,
	}
	g.umin = min
	g.umax = max

	return newGenerator[I](g)
}

func newUintMinGen[I integer](kind string, min uint64) *Generator[I] {
	g := &integerGen[I]{
		integerKindInfo: integerKindToInfo[kind],
		kind:            kind,
		hasMin:          true,
	}
	g.umin = min

	return newGenerator[I](g)
}

func newUintMaxGen[I integer](kind string, max uint64) *Generator[I] {
	g := &integerGen[I]{
		integerKindInfo: integerKindToInfo[kind],
		kind:            kind,
		hasMax:          true,
	}
	g.umax = max

	return newGenerator[I](g)
}

type integerGen[I integer] struct {
	integerKindInfo
	kind   string
	umin   uint64
	hasMin bool
	hasMax bool
}

func (g *integerGen[I]) String() string {
	if g.hasMin && g.hasMax {
		if g.signed {
			return fmt.Sprintf("%sRange(%d, %d)", g.kind, g.smin, g.smax)
		} else {
			return fmt.Sprintf("%sRange(%d, %d)", g.kind, g.umin, g.umax)
		}
	} else if g.hasMin {
		if g.signed {
			return fmt.Sprintf("%sMin(%d)", g.kind, g.smin)
		} else {
			return fmt.Sprintf("%sMin(%d)", g.kind, g.umin)
		}
	} else if g.hasMax {
		if g.signed {
			return fmt.Sprintf("%sMax(%d)", g.kind, g.smax)
		} else {
			return fmt.Sprintf("%sMax(%d)", g.kind, g.umax)
		}
	}

	return fmt.Sprintf("%s()", g.kind)
}

func (g *integerGen[I]) value(t *T) I {
	if g.signed {
		i, _, _ := genIntRange(t.s, g.smin, g.smax, true)
		return I(i)
	} else {
		u, _, _ := genUintRange(t.s, g.umin, g.umax, true)
		return I(u)
	}
}
