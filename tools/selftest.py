#!/usr/bin/env python3
"""Sensitivity suite: applies each mutant patch of /verif/mutants (or /verif/seeded/*/patch.diff) to a scratch
copy of /repo, confirms that the copy builds (and, with --suite, that the repository's own tests still pass),
runs the owning checks against it with VERIF_REPO, and reports red/green. The scratch copy is removed afterwards.

  tools/selftest.py [--suite] [--tier quick] [--jobs N] [name ...]     (default: all mutants)

A patch file starts with comment lines:   # property: C01,C04     # what: one line
"""
import json, os, re, shutil, subprocess, sys, time, concurrent.futures

VERIF = os.path.dirname(os.path.dirname(os.path.abspath(__file__)))
GOENV = dict(os.environ, GOFLAGS="-mod=mod", GOPROXY="off", GOSUMDB="off", GOTOOLCHAIN="local")


def mutants():
    out = {}
    d = os.path.join(VERIF, "mutants")
    if os.path.isdir(d):
        for f in sorted(os.listdir(d)):
            if f.endswith(".diff"):
                out[f[:-5]] = os.path.join(d, f)
    d = os.path.join(VERIF, "seeded")
    if os.path.isdir(d):
        for f in sorted(os.listdir(d)):
            p = os.path.join(d, f, "patch.diff")
            if os.path.exists(p):
                out["seeded-" + f] = p
    return out


def header(path):
    props, what = [], ""
    for line in open(path):
        if not line.startswith("#"):
            break
        m = re.match(r"#\s*property:\s*(.*)", line)
        if m:
            props = [p.strip() for p in m.group(1).split(",") if p.strip()]
        m = re.match(r"#\s*what:\s*(.*)", line)
        if m:
            what = m.group(1).strip()
    meta = os.path.join(os.path.dirname(path), "meta.json")
    if not props and os.path.exists(meta):
        md = json.load(open(meta))
        props = md.get("checks") or [md.get("property")]
        what = md.get("what", md.get("needs", ""))
    return props, what


def run_one(name, path, suite, tier, only):
    props, what = header(path)
    if only:
        props = only
    scratch = "/tmp/vmut/%s-%d" % (name, os.getpid())
    res = dict(name=name, props=props, what=what, results={})
    try:
        os.makedirs(os.path.dirname(scratch), exist_ok=True)
        base = None
        meta = os.path.join(os.path.dirname(path), "meta.json")
        if os.path.exists(meta):
            base = json.load(open(meta)).get("base")
        if base:  # recorded against an earlier commit of /repo (a later fix: commit rewrote the lines it touches)
            os.makedirs(scratch, exist_ok=True)
            subprocess.run("git -C /repo archive %s | tar -x -C %s" % (base, scratch), shell=True, check=True)
        else:
            subprocess.run(["rsync", "-a", "--exclude", ".git", "/repo/", scratch + "/"], check=True)
        p = subprocess.run(["patch", "-p1", "-s", "-d", scratch, "-i", path], stdout=subprocess.PIPE, stderr=subprocess.STDOUT, text=True)
        if p.returncode != 0:
            res["error"] = "patch does not apply: " + p.stdout[-300:]
            return res
        b = subprocess.run(["go", "build", "./..."], cwd=scratch, env=GOENV, stdout=subprocess.PIPE, stderr=subprocess.STDOUT, text=True)
        if b.returncode != 0:
            res["error"] = "does not build: " + b.stdout[-300:]
            return res
        if suite:
            t = subprocess.run(["go", "test", "-vet=off", "-count=1", "./..."], cwd=scratch, env=GOENV, stdout=subprocess.PIPE, stderr=subprocess.STDOUT, text=True)
            res["suite"] = "pass" if t.returncode == 0 else "FAIL"
        for pid in props:
            t0 = time.time()
            env = dict(os.environ, VERIF_REPO=scratch, VERIF_EVIDENCE_DIR="/tmp/vmut/evidence-%d" % os.getpid())
            c = subprocess.run([os.path.join(VERIF, "check"), pid, tier], cwd=VERIF, env=env, stdout=subprocess.PIPE, stderr=subprocess.STDOUT, text=True)
            keys = sorted(set(re.findall(r"key=(\S+)", c.stdout)))
            res["results"][pid] = dict(exit=c.returncode, secs=round(time.time() - t0, 1), keys=keys)
            if c.returncode == 2:
                res["results"][pid]["tail"] = c.stdout[-400:]
    finally:
        shutil.rmtree(scratch, ignore_errors=True)
    return res


def main():
    args = sys.argv[1:]
    if "--help" in args or "-h" in args:
        print(__doc__)
        return
    suite = "--suite" in args
    tier = "quick"
    jobs = 1
    only = None
    names = []
    i = 0
    while i < len(args):
        a = args[i]
        if a == "--tier":
            tier = args[i + 1]; i += 1
        elif a == "--jobs":
            jobs = int(args[i + 1]); i += 1
        elif a == "--checks":
            only = args[i + 1].split(","); i += 1
        elif not a.startswith("--"):
            names.append(a)
        i += 1
    ms = mutants()
    if not names:
        names = list(ms)
    results = []
    with concurrent.futures.ThreadPoolExecutor(max_workers=jobs) as ex:
        futs = [ex.submit(run_one, n, ms[n], suite, tier, only) for n in names if n in ms]
        for f in futs:
            r = f.result()
            results.append(r)
            if "error" in r:
                print("%-40s ERROR %s" % (r["name"], r["error"]))
                continue
            cells = []
            for pid, x in r["results"].items():
                verdict = {0: "green", 1: "RED", 2: "inconclusive"}.get(x["exit"], str(x["exit"]))
                cells.append("%s=%s(%ss)%s" % (pid, verdict, x["secs"], " " + ",".join(x["keys"]) if x["keys"] else ""))
            print("%-40s suite=%-5s %s" % (r["name"], r.get("suite", "-"), "  ".join(cells)), flush=True)
    shutil.rmtree("/tmp/vmut", ignore_errors=True)
    # merge into the recorded results (by mutant name) instead of replacing them: a partial run keeps the rest
    path = os.path.join(VERIF, "mutants", "LAST_RESULTS.json")
    old = []
    if os.path.exists(path):
        old = json.load(open(path))
    new = {r["name"]: r for r in results}
    merged = [new.pop(r["name"], r) for r in old] + list(new.values())
    with open(path, "w") as f:
        json.dump(merged, f, indent=1)


if __name__ == "__main__":
    main()
