package vh

import (
	"fmt"
	"math"
	"math/bits"
	mrand "math/rand"
	"os"
	"os/exec"
	"sort"
	"strings"
	"testing"
	"unicode"
	"unicode/utf8"

	"pgregory.net/rapid"
	"vh/drv"
)

// C18 - generators can reach every allowed value, hit the edges, and use fresh seeds.

type C18Case struct {
	What string `json:"what"` // reach8 | reachsmall | reach16 | bands | fbands | edges | fedges | freach | reachrune | reachsampled | scalars | fresh
	IK   string `json:"ik,omitempty"`
	SA   int64  `json:"sa,omitempty"`
	SB   int64  `json:"sb,omitempty"`
	UA   uint64 `json:"ua,omitempty"`
	UB   uint64 `json:"ub,omitempty"`
	Bits int    `json:"bits,omitempty"`
	// Ctor: which constructor builds the integer range: "" = XRange(a, b); "min" = XMin(a) (b is the kind's maximum);
	// "max" = XMax(b) (a is the kind's minimum); "none" = X() (both)
	Ctor string `json:"ctor,omitempty"`
	// reachrune: RuneFrom(Runes, Tables...); reachsampled: SampledFrom over K elements
	Runes  []rune   `json:"runes,omitempty"`
	Tables []string `json:"tables,omitempty"`
	K      int      `json:"k,omitempty"`
	Base   int      `json:"base"` // first Example seed
	N      int      `json:"n"`    // number of draws
	// fresh: the program under test has pinned Go's global math/rand source (rand.Seed(constant) in a TestMain or
	// a test, GODEBUG=randautoseed=0 in the child processes): the library's choice of seeds must not depend on it
	Pinned bool `json:"pinned,omitempty"`
	// fresh: a fail file of the test that has become useless (now passing / now invalid) lies in its directory
	Stale string `json:"stale,omitempty"`
}

type c18 struct{}

func init() { register(c18{}) }

func (c18) ID() string       { return "C18" }
func (c18) NewCase() any     { return &C18Case{} }
func (c18) Cases(c *Ctx) int { return c.Pick(150, 2500) }

// Gen samples ranges of every integer kind (placed at type extremes and from the hostile pool) and float ranges.
func (c18) Gen(dt *drv.T, c *Ctx) any {
	cs := &C18Case{Base: drv.IntRange(0, 1<<30).Draw(dt, "base")}
	menu := []string{"bands", "bands", "edges", "fbands", "fedges", "freach", "reachsmall", "reachsampled", "reachrune"}
	if !c.Thorough() {
		menu = append(menu, "reach8", "reach8")
	}
	cs.What = pick(dt, "what", menu...)
	switch cs.What {
	case "reach8":
		cs.N = 65536
		a, b := drv.IntRange(0, 255).Draw(dt, "a"), drv.IntRange(0, 255).Draw(dt, "b")
		if a > b {
			a, b = b, a
		}
		if drv.Bool().Draw(dt, "signed") {
			cs.IK, cs.SA, cs.SB = "Int8", int64(a-128), int64(b-128)
		} else {
			cs.IK, cs.UA, cs.UB = "Byte", uint64(a), uint64(b)
			if drv.Bool().Draw(dt, "uint8") {
				cs.IK = "Uint8"
			}
		}
		cs.Ctor = genCtor(dt, cs)
	case "reachsampled":
		cs.N = 131072
		cs.K = drv.IntRange(1, 256).Draw(dt, "k")
	case "reachrune":
		cs.N = 1 << 20
		if n := drv.IntRange(0, 64).Draw(dt, "nrunes"); n > 0 {
			cs.Runes = drv.SliceOfNDistinct(drv.OneOf(drv.Int32Range(0, 0x7f), drv.Int32Range(0x80, 0xd7ff), drv.Int32Range(0xe000, 0x10ffff)), n, n, drv.ID[int32]).Draw(dt, "runes")
		}
		nt := drv.IntRange(0, 2).Draw(dt, "ntables")
		if len(cs.Runes) == 0 && nt == 0 {
			nt = 1
		}
		cs.Tables = drv.SliceOfNDistinct(drv.SampledFrom(smallTables), nt, nt, drv.ID[string]).Draw(dt, "tables")
	case "bands", "edges":
		cs.N = 131072
		if cs.What == "edges" {
			cs.N = 8192
		}
		cs.IK = drv.SampledFrom(intKinds).Draw(dt, "ik")
		how := pick(dt, "place", "pool", "pool", "atmin", "atmax", "full")
		if intSigned(cs.IK) {
			lo, hi := sBounds(cs.IK)
			a, b := genSBound(dt, cs.IK, "a"), genSBound(dt, cs.IK, "b")
			switch how {
			case "atmin":
				a = lo
			case "atmax":
				b = hi
			case "full":
				a, b = lo, hi
			}
			if a > b {
				a, b = b, a
			}
			cs.SA, cs.SB = a, b
		} else {
			a, b := genUBound(dt, cs.IK, "a"), genUBound(dt, cs.IK, "b")
			switch how {
			case "atmin":
				a = 0
			case "atmax":
				b = uMax(cs.IK)
			case "full":
				a, b = 0, uMax(cs.IK)
			}
			if a > b {
				a, b = b, a
			}
			cs.UA, cs.UB = a, b
		}
		cs.Ctor = genCtor(dt, cs)
	case "reachsmall":
		// a range of at most 256 values of any integer kind, placed anywhere (type extremes, around zero, at powers
		// of two): every value has to be produced, like for the 8-bit kinds
		cs.N = 65536
		cs.IK = drv.SampledFrom(intKinds).Draw(dt, "ik")
		span := uint64(drv.IntRange(1, 255).Draw(dt, "span"))
		if intSigned(cs.IK) {
			lo, hi := sBounds(cs.IK)
			a := genSBound(dt, cs.IK, "a")
			if chance(dt, "aroundzero", 25) {
				a = -int64(drv.IntRange(0, int(span)).Draw(dt, "below"))
				if a < lo {
					a = lo
				}
			}
			if a > hi-int64(span) {
				a = hi - int64(span)
			}
			if a < lo {
				a = lo
			}
			b := a + int64(span)
			if b > hi {
				b = hi
			}
			cs.SA, cs.SB = a, b
		} else {
			hi := uMax(cs.IK)
			a := genUBound(dt, cs.IK, "a")
			if a > hi-span {
				a = hi - span
			}
			cs.UA, cs.UB = a, a+span
		}
		cs.Ctor = genCtor(dt, cs)
	case "freach":
		// a float range of a few representable values: every one of them has to be produced
		cs.N = 65536
		cs.Bits = pick(dt, "fbits", 32, 64)
		a := genFloatBound(dt, cs.Bits, "fa")
		k := drv.IntRange(1, 48).Draw(dt, "ulps")
		step := func(a float64) float64 {
			b := a
			for i := 0; i < k; i++ {
				if cs.Bits == 32 {
					b = float64(math.Nextafter32(float32(b), float32(math.Inf(1))))
				} else {
					b = math.Nextafter(b, math.Inf(1))
				}
			}
			return b
		}
		b := step(a)
		if math.IsInf(a, 0) || math.IsInf(b, 0) {
			a = 1
			b = step(a)
		}
		cs.UA, cs.UB = math.Float64bits(a), math.Float64bits(b)
	default:
		cs.N = 131072
		if cs.What == "fedges" {
			cs.N = 8192
		}
		cs.Bits = pick(dt, "fbits", 32, 64)
		a, b := genFloatBound(dt, cs.Bits, "fa"), genFloatBound(dt, cs.Bits, "fb")
		if a > b {
			a, b = b, a
		}
		cs.UA, cs.UB = math.Float64bits(a), math.Float64bits(b)
	}
	return cs
}

// genCtor picks, among the constructors that describe the range of cs, the one to build it with.
func genCtor(dt *drv.T, cs *C18Case) string {
	opts := ctorsOf(cs)
	return opts[drv.IntRange(0, len(opts)-1).Draw(dt, "ctor")]
}

func ctorsOf(cs *C18Case) []string {
	opts := []string{"", ""}
	atMin, atMax := false, false
	if intSigned(cs.IK) {
		lo, hi := sBounds(cs.IK)
		atMin, atMax = cs.SA == lo, cs.SB == hi
	} else {
		atMin, atMax = cs.UA == 0, cs.UB == uMax(cs.IK)
	}
	if atMax {
		opts = append(opts, "min", "min")
	}
	if atMin {
		opts = append(opts, "max", "max")
	}
	if atMin && atMax {
		opts = append(opts, "none", "none")
	}
	return opts
}

// smallTables: names of the unicode categories and scripts with at most 400 members (every member of such a table has
// a probability of about 1e-4 or more per draw when the table is one of at most two behind a list of runes).
var smallTables = func() []string {
	var out []string
	for name, tab := range tableByName {
		n := 0
		for _, r := range tab.R16 {
			n += int((r.Hi-r.Lo)/r.Stride) + 1
		}
		for _, r := range tab.R32 {
			n += int((r.Hi-r.Lo)/r.Stride) + 1
		}
		if n >= 1 && n <= 400 {
			out = append(out, name)
		}
	}
	sort.Strings(out)
	return out
}()

func tableMembers(name string) []rune {
	var out []rune
	tab := tableByName[name]
	for _, r := range tab.R16 {
		for c := rune(r.Lo); c <= rune(r.Hi); c += rune(r.Stride) {
			out = append(out, c)
		}
	}
	for _, r := range tab.R32 {
		for c := rune(r.Lo); c <= rune(r.Hi); c += rune(r.Stride) {
			out = append(out, c)
		}
	}
	return out
}

// drawInts returns n values of the integer range as (negative?, magnitude) pairs folded into int64/uint64.
func intExamples(cs *C18Case, f func(sv int64, uv uint64)) {
	spec := &GenSpec{K: "int", IK: cs.IK, Mode: "range", SA: cs.SA, SB: cs.SB, UA: cs.UA, UB: cs.UB}
	if cs.Ctor != "" {
		spec.Mode = cs.Ctor
	}
	signed := intSigned(cs.IK)
	fast := cs.IK
	if cs.Ctor != "" {
		fast = ""
	}
	switch fast {
	case "Byte":
		g := rapid.ByteRange(byte(cs.UA), byte(cs.UB))
		for i := 0; i < cs.N; i++ {
			f(0, uint64(g.Example(cs.Base+i)))
		}
		return
	case "Int8":
		g := rapid.Int8Range(int8(cs.SA), int8(cs.SB))
		for i := 0; i < cs.N; i++ {
			f(int64(g.Example(cs.Base+i)), 0)
		}
		return
	case "Int64":
		g := rapid.Int64Range(cs.SA, cs.SB)
		for i := 0; i < cs.N; i++ {
			f(g.Example(cs.Base+i), 0)
		}
		return
	case "Uint64":
		g := rapid.Uint64Range(cs.UA, cs.UB)
		for i := 0; i < cs.N; i++ {
			f(0, g.Example(cs.Base+i))
		}
		return
	}
	g := buildInt(spec)
	for i := 0; i < cs.N; i++ {
		v := g.Example(cs.Base + i)
		if signed {
			f(Measure(v), 0)
		} else {
			f(0, reflectUint(v))
		}
	}
}

func reflectUint(v any) uint64 {
	switch x := v.(type) {
	case uint:
		return uint64(x)
	case uint8:
		return uint64(x)
	case uint16:
		return uint64(x)
	case uint32:
		return uint64(x)
	case uint64:
		return x
	case uintptr:
		return uint64(x)
	}
	return 0
}

// side decomposes an integer range into its non-negative and negative side: origin and span of offsets.
type side struct {
	neg    bool
	origin uint64 // magnitude of the value closest to zero on this side
	span   uint64 // largest offset from origin
}

func sidesOf(cs *C18Case) []side {
	if !intSigned(cs.IK) {
		return []side{{origin: cs.UA, span: cs.UB - cs.UA}}
	}
	var out []side
	if cs.SB >= 0 {
		o := uint64(0)
		if cs.SA > 0 {
			o = uint64(cs.SA)
		}
		out = append(out, side{origin: o, span: uint64(cs.SB) - o})
	}
	if cs.SA < 0 {
		o := uint64(1)
		if cs.SB < 0 {
			o = uint64(-cs.SB)
		}
		out = append(out, side{neg: true, origin: o, span: uint64(-cs.SA) - o}) // -MinInt64 wraps to 2^63: intended
	}
	return out
}

func knownHoleBand(L int) bool {
	return L == 56 || (L >= 60 && L <= 64)
}

func (p c18) Run(c *Ctx, csAny any) Outcome {
	cs := csAny.(*C18Case)
	out := Outcome{Classes: []string{"what-" + cs.What}}
	desc := fmt.Sprintf("%sRange", cs.IK)
	if intSigned(cs.IK) {
		desc += fmt.Sprintf("(%d, %d)", cs.SA, cs.SB)
	} else {
		desc += fmt.Sprintf("(%d, %d)", cs.UA, cs.UB)
	}
	switch cs.Ctor {
	case "min":
		desc += fmt.Sprintf(" built as %sMin", cs.IK)
		out.Classes = append(out.Classes, "constructor-Min")
	case "max":
		desc += fmt.Sprintf(" built as %sMax", cs.IK)
		out.Classes = append(out.Classes, "constructor-Max")
	case "none":
		desc += fmt.Sprintf(" built as %s()", cs.IK)
		out.Classes = append(out.Classes, "constructor-unbounded")
	}
	switch cs.What {
	case "reach8":
		var seen [256]bool
		if cs.IK == "Byte" || cs.IK == "Uint8" {
			intExamples(cs, func(_ int64, u uint64) { seen[u] = true })
			for v := cs.UA; v <= cs.UB; v++ {
				if !seen[v] {
					out.Viol = violf("C18:value-unreachable:8bit", "%s: value %d never produced in %d draws", desc, v, cs.N)
					return out
				}
			}
			out.NonTrivial = cs.UB-cs.UA >= 2
		} else {
			intExamples(cs, func(s int64, _ uint64) { seen[uint8(int8(s))] = true })
			for v := cs.SA; v <= cs.SB; v++ {
				if !seen[uint8(int8(v))] {
					out.Viol = violf("C18:value-unreachable:8bit", "%s: value %d never produced in %d draws", desc, v, cs.N)
					return out
				}
			}
			out.NonTrivial = cs.SB-cs.SA >= 2
		}
	case "bands", "edges":
		sides := sidesOf(cs)
		hits := make([][65]int, len(sides)) // band -> hits by values other than the side's maximum
		sawMin, sawMax, sawZero := false, false, false
		intExamples(cs, func(s int64, u uint64) {
			var mag uint64
			neg := false
			if intSigned(cs.IK) {
				if s == cs.SA {
					sawMin = true
				}
				if s == cs.SB {
					sawMax = true
				}
				if s == 0 {
					sawZero = true
				}
				if s < 0 {
					neg, mag = true, uint64(-s)
				} else {
					mag = uint64(s)
				}
			} else {
				if u == cs.UA {
					sawMin = true
				}
				if u == cs.UB {
					sawMax = true
				}
				if u == 0 {
					sawZero = true
				}
				mag = u
			}
			for i, sd := range sides {
				if sd.neg == neg {
					off := mag - sd.origin
					if off != sd.span || sd.span == 0 {
						hits[i][bits.Len64(off)]++
					}
				}
			}
		})
		if cs.What == "edges" {
			zeroIn := (!intSigned(cs.IK) && cs.UA == 0) || (intSigned(cs.IK) && cs.SA <= 0 && cs.SB >= 0)
			switch {
			case !sawMin:
				out.Viol = violf("C18:edge-missed:min", "%s: the minimum never produced in %d draws", desc, cs.N)
			case !sawMax:
				out.Viol = violf("C18:edge-missed:max", "%s: the maximum never produced in %d draws", desc, cs.N)
			case zeroIn && !sawZero:
				out.Viol = violf("C18:edge-missed:zero", "%s: zero never produced in %d draws", desc, cs.N)
			}
			out.NonTrivial = len(sides) > 0 && (sides[0].span >= 2 || len(sides) > 1)
			return out
		}
		for i, sd := range sides {
			L := bits.Len64(sd.span)
			for b := 1; b <= L; b++ {
				lo := uint64(1) << (b - 1)
				hi := lo<<1 - 1
				if b == 64 {
					hi = math.MaxUint64
				}
				if hi > sd.span {
					hi = sd.span
				}
				width := hi - lo + 1
				if hi == sd.span {
					width-- // the maximum itself does not count
				}
				if width == 0 || width < lo/8 {
					continue // holds less than 1/8 of its nominal width: not asserted
				}
				if b >= 2 {
					out.NonTrivial = true
				}
				if h := hits[i][b]; h > 0 && h < 20 {
					out.Classes = append(out.Classes, "asserted-band-with-fewer-than-20-hits")
				}
				if hits[i][b] == 0 {
					sideName := "non-negative"
					if sd.neg {
						sideName = "negative"
					}
					if b == L && knownHoleBand(L) {
						out.Viol = violf(fmt.Sprintf("C18:top-band-unreachable:L=%d", L), "%s: %s side, span of bit length %d: no value with offset in [2^%d, span) in %d draws", desc, sideName, L, b-1, cs.N)
						return out
					}
					out.Viol = violf(fmt.Sprintf("C18:band-unreachable:L=%d:b=%d", L, b), "%s: %s side (origin %d, span %d): no value with an offset of bit length %d (other than the maximum) in %d draws", desc, sideName, sd.origin, sd.span, b, cs.N)
					return out
				}
			}
		}
	case "reachsmall":
		seenS, seenU := map[int64]int{}, map[uint64]int{}
		intExamples(cs, func(sv int64, uv uint64) { seenS[sv]++; seenU[uv]++ })
		if intSigned(cs.IK) {
			for v := cs.SA; ; v++ {
				if seenS[v] == 0 {
					out.Viol = violf("C18:value-unreachable:small-range", "%s: value %d never produced in %d draws", desc, v, cs.N)
					return out
				}
				if seenS[v] < 20 {
					out.Classes = append(out.Classes, "asserted-int-value-with-fewer-than-20-hits")
				}
				if v == cs.SB {
					break
				}
			}
			out.NonTrivial = cs.SB-cs.SA >= 2
		} else {
			for v := cs.UA; ; v++ {
				if seenU[v] == 0 {
					out.Viol = violf("C18:value-unreachable:small-range", "%s: value %d never produced in %d draws", desc, v, cs.N)
					return out
				}
				if seenU[v] < 20 {
					out.Classes = append(out.Classes, "asserted-int-value-with-fewer-than-20-hits")
				}
				if v == cs.UB {
					break
				}
			}
			out.NonTrivial = cs.UB-cs.UA >= 2
		}
	case "reach16":
		// every value of the 16-bit kinds (thorough tier: 40 million draws; calibrated: the rarest value was produced
		// 74 times in 40 million draws)
		seen := make([]int32, 65536)
		intExamples(cs, func(sv int64, uv uint64) { seen[uint16(sv)|uint16(uv)]++ })
		few := 0
		for v, n := range seen {
			if n == 0 {
				out.Viol = violf("C18:value-unreachable:16bit", "%s: the value with the bit pattern %#04x never produced in %d draws", desc, v, cs.N)
				return out
			}
			if n < 20 {
				few++
			}
		}
		if few > 0 {
			out.Classes = append(out.Classes, "asserted-int-value-with-fewer-than-20-hits")
		}
		out.NonTrivial = true
	case "reachsampled":
		// SampledFrom (and Just, for K = 1): every element of the slice has to be produced
		elems := make([]int, cs.K)
		for i := range elems {
			elems[i] = i
		}
		g := rapid.SampledFrom(elems)
		if cs.K == 1 {
			g = rapid.Just(0)
		}
		seen := make([]int, cs.K)
		for i := 0; i < cs.N; i++ {
			v := g.Example(cs.Base + i)
			if v < 0 || v >= cs.K {
				out.Viol = violf("C18:sampled-value-not-in-slice", "SampledFrom(%d elements) produced %d", cs.K, v)
				return out
			}
			seen[v]++
		}
		for v, n := range seen {
			if n == 0 {
				out.Viol = violf("C18:value-unreachable:sampled", "SampledFrom(%d elements): element %d never produced in %d draws", cs.K, v, cs.N)
				return out
			}
			if n < 20 {
				out.Classes = append(out.Classes, "asserted-element-with-fewer-than-20-hits")
			}
		}
		out.NonTrivial = cs.K >= 3
	case "reachrune":
		// RuneFrom over a list of runes and up to two small tables: every rune of the list and every member of
		// every table has to be produced
		var tabs []*unicode.RangeTable
		want := map[rune]bool{}
		for _, r := range cs.Runes {
			want[r] = true
		}
		for _, n := range cs.Tables {
			tabs = append(tabs, tableByName[n])
			for _, r := range tableMembers(n) {
				want[r] = true
			}
		}
		g := rapid.RuneFrom(append([]rune(nil), cs.Runes...), tabs...)
		seen := map[rune]int{}
		for i := 0; i < cs.N; i++ {
			seen[g.Example(cs.Base+i)]++
		}
		rs := make([]rune, 0, len(want))
		for r := range want {
			rs = append(rs, r)
		}
		sort.Slice(rs, func(i, j int) bool { return rs[i] < rs[j] })
		for _, r := range rs {
			if seen[r] == 0 {
				out.Viol = violf("C18:value-unreachable:rune", "RuneFrom(%d runes, tables %v): %U never produced in %d draws (%d distinct runes seen of %d)", len(cs.Runes), cs.Tables, r, cs.N, len(seen), len(want))
				return out
			}
			if seen[r] < 20 {
				out.Classes = append(out.Classes, "asserted-rune-with-fewer-than-20-hits")
			}
		}
		out.NonTrivial = len(want) >= 3
	case "scalars":
		// Bool: both values; Rune(): every ASCII character and all four UTF-8 lengths (calibrated: the rarest ASCII
		// character 11 times in 200,000 draws, so 2 million are drawn)
		sawT, sawF := false, false
		gb := rapid.Bool()
		for i := 0; i < 4096; i++ {
			if gb.Example(cs.Base + i) {
				sawT = true
			} else {
				sawF = true
			}
		}
		if !sawT || !sawF {
			out.Viol = violf("C18:value-unreachable:bool", "Bool(): true seen=%v, false seen=%v in 4096 draws", sawT, sawF)
			return out
		}
		gr := rapid.Rune()
		var ascii [128]int
		var byLen [5]int
		for i := 0; i < cs.N; i++ {
			r := gr.Example(cs.Base + i)
			if r >= 0 && r < 128 {
				ascii[r]++
			}
			if l := utf8.RuneLen(r); l >= 1 {
				byLen[l]++
			}
		}
		for r, n := range ascii {
			if n == 0 {
				out.Viol = violf("C18:value-unreachable:rune", "Rune(): %U never produced in %d draws", r, cs.N)
				return out
			}
		}
		for l := 1; l <= 4; l++ {
			if byLen[l] == 0 {
				out.Viol = violf("C18:value-unreachable:rune", "Rune(): no rune of %d UTF-8 bytes in %d draws", l, cs.N)
				return out
			}
		}
		out.NonTrivial = true
	case "freach":
		lo, hi := math.Float64frombits(cs.UA), math.Float64frombits(cs.UB)
		seen := map[uint64]int{}
		if cs.Bits == 32 {
			g := rapid.Float32Range(float32(lo), float32(hi))
			for i := 0; i < cs.N; i++ {
				seen[math.Float64bits(float64(g.Example(cs.Base+i)))]++
			}
		} else {
			g := rapid.Float64Range(lo, hi)
			for i := 0; i < cs.N; i++ {
				seen[math.Float64bits(g.Example(cs.Base+i))]++
			}
		}
		n := 0
		for v := lo; v <= hi && n < 200; n++ {
			bits := math.Float64bits(v)
			if v == 0 {
				if seen[math.Float64bits(0)]+seen[math.Float64bits(math.Copysign(0, -1))] == 0 {
					out.Viol = violf("C18:value-unreachable:float", "Float%dRange(%g, %g): zero never produced in %d draws", cs.Bits, lo, hi, cs.N)
					return out
				}
			} else if seen[bits] == 0 {
				out.Viol = violf("C18:value-unreachable:float", "Float%dRange(%g, %g): the representable value %g (%#x) never produced in %d draws (%d distinct values seen)", cs.Bits, lo, hi, v, bits, cs.N, len(seen))
				return out
			} else if seen[bits] < 20 {
				out.Classes = append(out.Classes, "asserted-float-value-with-fewer-than-20-hits")
			}
			if cs.Bits == 32 {
				v = float64(math.Nextafter32(float32(v), float32(math.Inf(1))))
			} else {
				v = math.Nextafter(v, math.Inf(1))
			}
		}
		out.NonTrivial = n >= 3
	case "fbands", "fedges":
		lo, hi := math.Float64frombits(cs.UA), math.Float64frombits(cs.UB)
		var ex func(i int) float64
		if cs.Bits == 32 {
			g := rapid.Float32Range(float32(lo), float32(hi))
			ex = func(i int) float64 { return float64(g.Example(cs.Base + i)) }
		} else {
			g := rapid.Float64Range(lo, hi)
			ex = func(i int) float64 { return g.Example(cs.Base + i) }
		}
		desc = fmt.Sprintf("Float%dRange(%g, %g)", cs.Bits, lo, hi)
		sawMin, sawMax, sawZero, sawNeg, sawPos := false, false, false, false, false
		posExp, negExp := map[int]bool{}, map[int]bool{}
		for i := 0; i < cs.N; i++ {
			v := ex(i)
			if v == lo {
				sawMin = true
			}
			if v == hi {
				sawMax = true
			}
			if v == 0 {
				sawZero = true
			}
			e := math.Ilogb(v)
			if v == 0 {
				e = -2000
			}
			if v < 0 || (v == 0 && math.Signbit(v)) {
				sawNeg = true
				negExp[e] = true
			} else {
				sawPos = true
				posExp[e] = true
			}
		}
		if cs.What == "fedges" {
			switch {
			case !sawMin:
				out.Viol = violf("C18:edge-missed:fmin", "%s: the minimum never produced in %d draws", desc, cs.N)
			case !sawMax:
				out.Viol = violf("C18:edge-missed:fmax", "%s: the maximum never produced in %d draws", desc, cs.N)
			case lo <= 0 && hi >= 0 && !sawZero:
				out.Viol = violf("C18:edge-missed:fzero", "%s: zero never produced in %d draws", desc, cs.N)
			}
			out.NonTrivial = lo != hi
			return out
		}
		if lo < 0 && hi > 0 && (!sawNeg || !sawPos) {
			out.Viol = violf("C18:sign-unreachable", "%s: negative seen %v, positive seen %v in %d draws", desc, sawNeg, sawPos, cs.N)
			return out
		}
		// exponent bands: the binary exponents of a side, grouped by the bit length of their distance from the
		// exponent closest to zero; only groups that lie strictly inside the bounds' exponents are asserted
		normMin, infE := -1022, 1024
		if cs.Bits == 32 {
			normMin, infE = -126, 128
		}
		expOf := func(f float64) int {
			switch {
			case f == 0:
				return normMin - 1
			case math.IsInf(f, 0):
				return infE
			}
			if e := math.Ilogb(f); e >= normMin {
				return e
			}
			return normMin - 1 // subnormals share the smallest exponent
		}
		checkSide := func(a, b float64, seen map[int]bool, name string) *Violation {
			if !(b > a) || a < 0 {
				return nil
			}
			seenN := map[int]bool{}
			for e := range seen {
				if e < normMin {
					e = normMin - 1
				}
				seenN[e] = true
			}
			minE, maxE := expOf(a), expOf(b)
			for _, dir := range []int{1, -1} {
				var origin, span int
				if dir == 1 {
					if maxE < 0 {
						continue
					}
					origin = max(minE, 0)
					span = maxE - origin
				} else {
					if minE > -1 {
						continue
					}
					origin = min(maxE, -1)
					span = origin - minE
				}
				for band := 2; (1<<band)-1 < span; band++ {
					out.NonTrivial = true
					hit := false
					for off := 1 << (band - 1); off <= (1<<band)-1; off++ {
						if seenN[origin+dir*off] {
							hit = true
							break
						}
					}
					if !hit {
						return violf(fmt.Sprintf("C18:exponent-band-unreachable:%d", band), "%s: %s side: no value with binary exponent between %d and %d in %d draws", desc, name, origin+dir*(1<<(band-1)), origin+dir*((1<<band)-1), cs.N)
					}
				}
			}
			return nil
		}
		if hi > 0 {
			if v := checkSide(math.Max(lo, 0), hi, posExp, "positive"); v != nil {
				out.Viol = v
				return out
			}
		}
		if lo < 0 {
			if v := checkSide(math.Max(-hi, 0), -lo, negExp, "negative"); v != nil {
				out.Viol = v
				return out
			}
		}
	case "fresh":
		return p.fresh(c, cs)
	}
	return out
}

func freshProg() *Prog {
	return &Prog{Body: []*Stmt{{Op: "draw", Label: "w", Gen: &GenSpec{K: "slice", Min: 16, Max: 16, Sub: []*GenSpec{{K: "int", IK: "Int64"}}}}}}
}

func firstCases(n int) []string { return firstCasesOpt(n, "") }

// firstCasesOpt: stale != "" plants one fail file for the test first that is of no use any more ("passing": enough
// zero words, the property never fails; "invalid": too few words). Its replay is the first invocation and is left out.
func firstCasesOpt(n int, stale string) []string {
	drop := 0
	if stale != "" {
		if base, version, ok := subjectFailFile("TestFresh"); ok {
			words := make([]uint64, 120)
			if stale == "invalid" {
				words = words[:3]
			}
			writeFailFile(strings.TrimSuffix(base, ".fail")+"-old.fail", version, 5, words, "left over from a bug that has been fixed")
			drop = 1
		}
	}
	r := runProg(CheckCfg{Name: "TestFresh", Seed: 0, Checks: n, ShrinkNS: 0, NoFailFile: true}, freshProg())
	var out []string
	for i, inv := range r.X.Log {
		if i >= drop {
			out = append(out, inv.DrawCanon())
		}
	}
	for _, f := range FailFiles() {
		_ = removeFile(f)
	}
	return out
}

func (p c18) fresh(c *Ctx, cs *C18Case) Outcome {
	out := Outcome{NonTrivial: true}
	pin := func() {
		if cs.Pinned {
			mrand.Seed(42) //lint:ignore SA1019 deprecated but in use; a no-op only for programs that declare go >= 1.24
		}
	}
	pin()
	a := firstCasesOpt(cs.N, cs.Stale)
	pin()
	b := firstCasesOpt(cs.N, cs.Stale)
	if cs.Stale != "" {
		out.Classes = append(out.Classes, "fresh-with-a-useless-fail-file-present")
	}
	if cs.Pinned {
		out.Classes = append(out.Classes, "fresh-with-pinned-global-math/rand")
	}
	if len(a) == 0 || len(b) == 0 {
		out.Viol = violf("C18:fresh:no-cases", "Check without a seed ran no test case")
		return out
	}
	if a[0] == b[0] {
		out.Viol = violf("C18:fresh:same-sequence-in-process", "two Check calls without -rapid.seed started with the same test case %s", a[0])
		return out
	}
	distinct := map[string]bool{}
	for _, s := range a {
		distinct[s] = true
	}
	if len(distinct)*10 < len(a)*9 {
		out.Viol = violf("C18:fresh:repeated-cases", "only %d distinct test cases among %d in one run", len(distinct), len(a))
		return out
	}
	// one function value returned by MakeCheck, run twice as a sub-test: two Check calls like any other two
	if !cs.Pinned && cs.Stale == "" {
		var runs [][]string
		x := NewInterp(freshProg())
		applyCfg(CheckCfg{Name: "TestFresh", Seed: 0, Checks: 5, ShrinkNS: 0, NoFailFile: true})
		f := rapid.MakeCheck(x.Prop)
		for i := 0; i < 2; i++ {
			n0 := len(x.Log)
			Hosted(func(t *testing.T) { f(t) })
			x.Finish()
			var cases []string
			for _, inv := range x.Log[n0:] {
				cases = append(cases, inv.DrawCanon())
			}
			runs = append(runs, cases)
		}
		resetFlags()
		out.Classes = append(out.Classes, "fresh-one-MakeCheck-function-twice")
		if len(runs[0]) > 0 && len(runs[1]) > 0 && runs[0][0] == runs[1][0] {
			out.Viol = violf("C18:fresh:same-sequence-in-process", "the function returned by one MakeCheck call, run twice without -rapid.seed, started with the same test case %s both times", runs[0][0])
			return out
		}
	}
	// across processes
	var first []string
	for i := 0; i < 2; i++ {
		cmd := exec.Command(os.Getenv("VERIF_BIN"), "-test.run", "^$")
		cmd.Env = append(os.Environ(), "VERIF_CHILD=fresh")
		if cs.Pinned {
			cmd.Env = append(cmd.Env, "GODEBUG=randautoseed=0")
		}
		if cs.Stale != "" {
			cmd.Env = append(cmd.Env, "VERIF_FRESH_STALE="+cs.Stale)
		}
		b, err := cmd.Output()
		if err != nil {
			out.Classes = append(out.Classes, "child-failed")
			return out
		}
		first = append(first, strings.TrimSpace(string(b)))
	}
	if first[0] == first[1] || first[0] == a[0] {
		out.Viol = violf("C18:fresh:same-sequence-across-processes", "two processes without -rapid.seed started with the same test case %s", first[0])
	}
	return out
}

// Loop enumerates / samples ranges; the shard index selects a slice of the work.
func (p c18) Loop(c *Ctx) {
	n := 0
	mine := func() bool { n++; return n%c.Shards == c.Shard }
	run := func(cs *C18Case) {
		o := p.Run(c, cs)
		c.Stats.AddRaw(hash64(caseJSON(cs)), o.NonTrivial, cs, o.Classes...)
		if o.Viol != nil {
			c.Report("C18", cs, o.Viol)
		}
	}
	base := int(c.Seed % 1000003)
	// 1. every value of 8-bit ranges
	if c.Thorough() {
		for a := 0; a <= 255; a++ {
			for b := a; b <= 255; b++ {
				if mine() {
					run(&C18Case{What: "reach8", IK: "Byte", UA: uint64(a), UB: uint64(b), Base: base, N: 65536})
				}
				if mine() {
					run(&C18Case{What: "reach8", IK: "Int8", SA: int64(a - 128), SB: int64(b - 128), Base: base, N: 65536})
				}
			}
		}
		c.Stats.Extra["8bit_ranges_exhaustive"] = true
	}
	// 2. the full-range generators of every kind and a few fixed ranges at type extremes
	for _, ik := range intKinds {
		cs := &C18Case{IK: ik, Base: base}
		if intSigned(ik) {
			cs.SA, cs.SB = sBounds(ik)
		} else {
			cs.UB = uMax(ik)
		}
		if mine() {
			e := *cs
			e.What, e.N = "edges", 8192
			run(&e)
		}
		if mine() {
			bnd := *cs
			bnd.What, bnd.N = "bands", 131072
			run(&bnd)
		}
		for _, ctor := range []string{"none", "min", "max"} {
			if mine() {
				e := *cs
				e.What, e.N, e.Ctor = "edges", 8192, ctor
				run(&e)
			}
			if mine() {
				bnd := *cs
				bnd.What, bnd.N, bnd.Ctor = "bands", 131072, ctor
				run(&bnd)
			}
		}
		if intBits(ik) == 8 {
			for _, ctor := range []string{"none", "min", "max"} {
				if mine() {
					r8 := *cs
					r8.What, r8.N, r8.Ctor = "reachsmall", 65536, ctor
					run(&r8)
				}
			}
		}
		if c.Thorough() && intBits(ik) == 16 {
			for _, ctor := range []string{"", "none"} {
				if mine() {
					r16 := *cs
					r16.What, r16.N, r16.Ctor = "reach16", 40_000_000, ctor
					run(&r16)
				}
			}
		}
	}
	if mine() {
		run(&C18Case{What: "scalars", Base: base, N: 2_000_000})
	}
	// 4. freshness
	for i := 0; i < c.Pick(4, 8); i++ {
		if mine() {
			run(&C18Case{What: "fresh", N: 60, Pinned: i%2 == 1, Stale: []string{"", "passing", "", "invalid"}[i%4]})
		}
	}
	// 4. sampled ranges of every kind, generated (and shrunk) by the driver
	driveProperty(p, c)
}
