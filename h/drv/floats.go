// Copyright 2019 Gregory Petrosyan <gregory.petrosyan@gmail.com>
//
// This Source Code Form is subject to the terms of the Mozilla Public
// License, v. 2.0. If a copy of the MPL was not distributed with this
// file, You can obtain one at https://mozilla.org/MPL/2.0/.

package drv

import (
	"fmt"
	"math"
	"math/bits"
)

const (
	float32ExpBits    = 8
	float32SignifBits = 23

	float64ExpBits    = 11
	float64SignifBits = 52

	floatExpLabel    = "floatexp"
	floatSignifLabel = "floatsignif"
)

// Float32 is a shorthand for [Float32Range](-[math.MaxFloat32], [math.MaxFloat32]).
func Float32() *Generator[float32] {
	return Float32Range(-math.MaxFloat32, math.MaxFloat32)
}

// Float32Min is a shorthand for [Float32Range](min, [math.MaxFloat32]).
func Float32Min(min float32) *Generator[float32] {
	return Float32Range(min, math.MaxFloat32)
}

// Float32Max is a shorthand for [Float32Range](-[math.MaxFloat32], max).
func Float32Max(max float32) *Generator[float32] {
	return Float32Range(-math.MaxFloat32, max)
}

// Float32Range creates a generator of 32-bit floating-point numbers in range [min, max].
// Both min and max can be infinite.
func Float32Range(min float32, max float32) *Generator[float32] {
	assertf(min == min, "min should not be a NaN")
	assertf(max == max, "max should not be a NaN")
	assertf(min <= max, "invalid range [%v, %v]", min, max)

	return newGenerator[float32](&float32Gen{
		floatGen{
			min:    float64(min),
			max:    float64(max),
			minVal: -math.MaxFloat32,
			maxVal: math.MaxFloat32,
		},
	})
}

// Float64 is a shorthand for [Float64Range](-[math.MaxFloat64], [math.MaxFloat64]).
func Float64() *Generator[float64] {
	return Float64Range(-math.MaxFloat64, math.MaxFloat64)
}

// Float64Min is a shorthand for [Float64Range](min, [math.MaxFloat64]).
func Float64Min(min float64) *Generator[float64] {
	return Float64Range(min, math.MaxFloat64)
}

// Float64Max is a shorthand for [Float64Range](-[math.MaxFloat64], max).
func Float64Max(max float64) *Generator[float64] {
	return Float64Range(-math.MaxFloat64, max)
}

// Float64Range creates a generator of 64-bit floating-point numbers in range [min, max].
// Both min and max can be infinite.
func Float64Range(min float64, max float64) *Generator[float64] {
	assertf(min == min, "min should not be a NaN")
	assertf(max == max, "max should not be a NaN")
	assertf(min <= max, "invalid range [%v, %v]", min, max)

	return newGenerator[float64](&float64Gen{
		floatGen{
			min:    min,
			max:    max,
			minVal: -math.MaxFloat64,
			maxVal: math.MaxFloat64,
		},
	})
}

type floatGen struct {
	min    float64
	max    float64
	minVal float64
	maxVal float64
}
type float32Gen struct{ floatGen }
type float64Gen struct{ floatGen }

func (g *floatGen) stringImpl(kind string) string {
	if g.min != g.minVal && g.max != g.maxVal {
		return fmt.Sprintf("%sRange(%g, %g)", kind, g.min, g.max)
	} else if g.min != g.minVal {
		return fmt.Sprintf("%sMin(%g)", kind, g.min)
	} else if g.max != g.maxVal {
		return fmt.Sprintf("%sMax(%g)", kind, g.max)
	}

	return fmt.Sprintf("%s()", kind)
}
func (g *float32Gen) String() string {
	return g.stringImpl("Float32")
}
func (g *float64Gen) String() string {
	return g.stringImpl("Float64")
}

func (g *float32Gen) value(t *T) float32 {
	return float32FromParts(genFloatRange(t.s, g.min, g.max, float32SignifBits))
}
func (g *float64Gen) value(t *T) float64 {
	return float64FromParts(genFloatRange(t.s, g.min, g.max, float64SignifBits))
}

func ufloatFracBits(e int32, signifBits uint) uint {
	if e <= 0 {
		return signifBits
	} else if uint(e) < signifBits {
		return signifBits - uint(e)
	} else {
		return 0
	}
}

func ufloat32Parts(f float32) (int32, uint64, uint64) {
	u := math.Float32bits(f) & math.MaxInt32

	e := int32(u>>float32SignifBits) - int32(bitmask64(float32ExpBits-1))
	s := uint64(u) & bitmask64(float32SignifBits)
	n := ufloatFracBits(e, float32SignifBits)

	return e, s >> n, s & bitmask64(n)
}

func ufloat64Parts(f float64) (int32, uint64, uint64) {
	u := math.Float64bits(f) & math.MaxInt64

	e := int32(u>>float64SignifBits) - int32(bitmask64(float64ExpBits-1))
	s := u & bitmask64(float64SignifBits)
	n := ufloatFracBits(e, float64SignifBits)

	return e, s >> n, s & bitmask64(n)
}

func ufloat32FromParts(e int32, si uint64, sf uint64) float32 {
	e_ := (uint32(e) + uint32(bitmask64(float32ExpBits-1))) << float32SignifBits
	s_ := (uint32(si) << ufloatFracBits(e, float32SignifBits)) | uint32(sf)

	return math.Float32frombits(e_ | s_)
}

func ufloat64FromParts(e int32, si uint64, sf uint64) float64 {
	e_ := (uint64(e) + bitmask64(float64ExpBits-1)) << float64SignifBits
	s_ := (si << ufloatFracBits(e, float64SignifBits)) | sf

	return math.Float64frombits(e_ | s_)
}

func float32FromParts(sign bool, e int32, si uint64, sf uint64) float32 {
	f := ufloat32FromParts(e, si, sf)
	if sign {
		return -f
	} else {
		return f
	}
}

func float64FromParts(sign bool, e int32, si uint64, sf uint64) float64 {
	f := ufloat64FromParts(e, si, sf)
	if sign {
		return -f
	} else {
		return f
	}
}

func genUfloatRange(s bitStream, min float64, max float64, signifBits uint) (int32, uint64, uint64) {
	assert(min >= 0 && min <= max)

	var (
		minExp, maxExp                                 int32
		minSignifI, maxSignifI, minSignifF, maxSignifF uint64
	)
	if signifBits == float32SignifBits {
		minExp, minSignifI, minSignifF = ufloat32Parts(float32(min))
		maxExp, maxSignifI, maxSignifF = ufloat32Parts(float32(max))
	} else {
		minExp, minSignifI, minSignifF = ufloat64Parts(min)
		maxExp, maxSignifI, maxSignifF = ufloat64Parts(max)
	}

	i := s.beginGroup(floatExpLabel, false)
	e, lOverflow, rOverflow := genIntRange(s, int64(minExp), int64(maxExp), true)
	s.endGroup(i, false)

	fracBits := ufloatFracBits(int32(e), signifBits)

	j := s.beginGroup(floatSignifLabel, false)
	var siMin, siMax uint64
	switch {
	case lOverflow:
		siMin, siMax = minSignifI, minSignifI
	case rOverflow:
		siMin, siMax = maxSignifI, maxSignifI
	case minExp == maxExp:
		siMin, siMax = minSignifI, maxSignifI
	case int32(e) == minExp:
		siMin, siMax = minSignifI, bitmask64(signifBits-fracBits)
	case int32(e) == maxExp:
		siMin, siMax = 0, maxSignifI
	default:
		siMin, siMax = 0, bitmask64(signifBits-fracBits)
	}
	si, _, _ := genUintRange(s, siMin, siMax, false)
	var sfMin, sfMax uint64
	switch {
	case lOverflow:
		sfMin, sfMax = minSignifF, minSignifF
	case rOverflow:
		sfMin, sfMax = maxSignifF, maxSignifF
	case minExp == maxExp && minSignifI == maxSignifI:
		sfMin, sfMax = minSignifF, maxSignifF
	case int32(e) == minExp && si == minSignifI:
		sfMin, sfMax = minSignifF, bitmask64(fracBits)
	case int32(e) == maxExp && si == maxSignifI:
		sfMin, sfMax = 0, maxSignifF
	default:
		sfMin, sfMax = 0, bitmask64(fracBits)
	}
	maxR := bits.Len64(sfMax - sfMin)
	r := genUintNNoReject(s, uint64(maxR))
	sf, _, _ := genUintRange(s, sfMin, sfMax, false)
	s.endGroup(j, false)

	for i := uint(0); i < uint(maxR)-uint(r); i++ {
		mask := ^(uint64(1) << i)
		if sf&mask < sfMin {
			break
		}
		sf &= mask
	}

	return int32(e), si, sf
}

func genFloatRange(s bitStream, min float64, max float64, signifBits uint) (bool, int32, uint64, uint64) {
	var posMin, negMin, pNeg float64
	if min >= 0 {
		posMin = min
		pNeg = 0
	} else if max <= 0 {
		negMin = -max
		pNeg = 1
	} else {
		pNeg = 0.5
	}

	if flipBiasedCoin(s, pNeg) {
		e, si, sf := genUfloatRange(s, negMin, -min, signifBits)
		return true, e, si, sf
	} else {
		e, si, sf := genUfloatRange(s, posMin, max, signifBits)
		return false, e, si, sf
	}
}
