package vh

import (
	"pgregory.net/rapid"
)

// State machines built with StateMachineActions: menu types whose exported methods are actions (taking *T or
// TB), the invariant (Check) and things that are not actions at all.

type smBase struct {
	acts  map[string]func(*rapid.T)
	bogus func(name string)
}

func (s *smBase) run(name string, t *rapid.T) {
	if f := s.acts[name]; f != nil {
		f(t)
	}
}

// smA: two *T actions, one TB action, Check, and non-action methods.
type smA struct{ smBase }

func (s *smA) A0(t *rapid.T)         { s.run("a0", t) }
func (s *smA) A1(t rapid.TB)         { s.run("a1", t.(*rapid.T)) }
func (s *smA) A2(t *rapid.T)         { s.run("a2", t) }
func (s *smA) A3(t *rapid.T)         { s.run("a3", t) }
func (s *smA) Check(t *rapid.T)      { s.run("", t) }
func (s *smA) NotAnAction(x int) int { s.bogus("NotAnAction"); return x }
func (s *smA) AlsoNot()              { s.bogus("AlsoNot") }
func (s *smA) TwoArgs(t *rapid.T, n int) {
	s.bogus("TwoArgs")
}

// smB: value receiver, TB-only actions.
type smB struct{ b *smBase }

func (s smB) A0(t rapid.TB)    { s.b.run("a0", t.(*rapid.T)) }
func (s smB) A1(t rapid.TB)    { s.b.run("a1", t.(*rapid.T)) }
func (s smB) A2(t rapid.TB)    { s.b.run("a2", t.(*rapid.T)) }
func (s smB) A3(t rapid.TB)    { s.b.run("a3", t.(*rapid.T)) }
func (s smB) Check(t *rapid.T) { s.b.run("", t) }
func (s smB) Returns(t *rapid.T) error {
	s.b.bogus("Returns")
	return nil
}

// smActions wraps an actions map into a state machine object and lets the library derive the map again.
// Methods of the menu type without a counterpart in actions run nothing, but are still selectable actions:
// an action set built this way always has the menu type's action names.
func smActions(kind string, actions map[string]func(*rapid.T), bogus func(string)) map[string]func(*rapid.T) {
	base := smBase{acts: actions, bogus: bogus}
	if kind == "B" {
		return rapid.StateMachineActions(smB{b: &base})
	}
	return rapid.StateMachineActions(&smA{base})
}
