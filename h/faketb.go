package vh

import (
	"fmt"
	"sync"
	"sync/atomic"
	"time"
)

// seqCounter is shared by FakeTB and the property interpreter, so that the relative order of TB messages
// and property invocations is known.
var seqCounter int64

func nextSeq() int64 { return atomic.AddInt64(&seqCounter, 1) }

// TBMsg is one call on the TB that was passed to rapid.Check.
type TBMsg struct {
	Seq  int64  `json:"seq"`
	Kind string `json:"kind"` // Logf Log Errorf Error Fatalf Fatal Skipf Skip SkipNow FailNow Fail
	Text string `json:"text"`
}

// tbStop is the sentinel panic used by FakeTB to unwind out of rapid.Check on FailNow/Fatal*/Skip*.
type tbStop struct{ kind string }

// FakeTB is a goroutine-safe recording implementation of rapid.TB (and of the driver's TB).
type FakeTB struct {
	mu      sync.Mutex
	name    string
	msgs    []TBMsg
	failed  bool
	failNow bool
	skipped bool
}

func NewFakeTB(name string) *FakeTB { return &FakeTB{name: name} }

func (f *FakeTB) rec(kind, text string) {
	f.mu.Lock()
	f.msgs = append(f.msgs, TBMsg{Seq: nextSeq(), Kind: kind, Text: text})
	f.mu.Unlock()
}

func (f *FakeTB) Helper() {}

// Deadline: like a *testing.T of a binary run with -timeout 0, this TB has no deadline. (The library only asks a
// *testing.T; a TB of one's own that has the method must not be taken to be about to expire.)
func (f *FakeTB) Deadline() (time.Time, bool) { return time.Time{}, false }

func (f *FakeTB) Name() string { return f.name }
func (f *FakeTB) Logf(format string, args ...any) {
	f.rec("Logf", fmt.Sprintf(format, args...))
}
func (f *FakeTB) Log(args ...any) { f.rec("Log", fmt.Sprint(args...)) }
func (f *FakeTB) Skipf(format string, args ...any) {
	f.rec("Skipf", fmt.Sprintf(format, args...))
	f.skipNow()
}
func (f *FakeTB) Skip(args ...any) { f.rec("Skip", fmt.Sprint(args...)); f.skipNow() }
func (f *FakeTB) SkipNow()         { f.rec("SkipNow", ""); f.skipNow() }
func (f *FakeTB) skipNow() {
	f.mu.Lock()
	f.skipped = true
	f.mu.Unlock()
	panic(tbStop{"skip"})
}
func (f *FakeTB) Errorf(format string, args ...any) {
	f.rec("Errorf", fmt.Sprintf(format, args...))
	f.setFailed()
}
func (f *FakeTB) Error(args ...any) { f.rec("Error", fmt.Sprint(args...)); f.setFailed() }
func (f *FakeTB) Fatalf(format string, args ...any) {
	f.rec("Fatalf", fmt.Sprintf(format, args...))
	f.setFailed()
	f.failNowImpl()
}
func (f *FakeTB) Fatal(args ...any) {
	f.rec("Fatal", fmt.Sprint(args...))
	f.setFailed()
	f.failNowImpl()
}
func (f *FakeTB) FailNow() { f.rec("FailNow", ""); f.setFailed(); f.failNowImpl() }
func (f *FakeTB) Fail()    { f.rec("Fail", ""); f.setFailed() }
func (f *FakeTB) setFailed() {
	f.mu.Lock()
	f.failed = true
	f.mu.Unlock()
}
func (f *FakeTB) failNowImpl() {
	f.mu.Lock()
	f.failNow = true
	f.mu.Unlock()
	panic(tbStop{"failnow"})
}
func (f *FakeTB) Failed() bool {
	f.mu.Lock()
	defer f.mu.Unlock()
	return f.failed
}

// Snapshot returns a copy of everything recorded so far.
func (f *FakeTB) Snapshot() (msgs []TBMsg, failed, failNow, skipped bool) {
	f.mu.Lock()
	defer f.mu.Unlock()
	return append([]TBMsg(nil), f.msgs...), f.failed, f.failNow, f.skipped
}
