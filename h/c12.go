package vh

import (
	"fmt"
	"reflect"
	"unicode/utf8"

	"pgregory.net/rapid"
	"vh/drv"
)

// C12 - minimization reaches the exact boundary on threshold properties.

type C12Case struct {
	What string `json:"what"` // int | slice | string | map
	IK   string `json:"ik,omitempty"`
	ST   int64  `json:"st,omitempty"`  // signed threshold
	UT   uint64 `json:"ut,omitempty"`  // unsigned threshold
	Up   bool   `json:"up"`            // fails when v >= threshold (else: v <= threshold)
	D    int    `json:"d,omitempty"`   // collections over small domains: size of the key domain / alphabet, or the byte limit
	K    int    `json:"k,omitempty"`   // collections: fails when len >= k
	How  string `json:"how,omitempty"` // how the breach is signalled: "" Fatalf | errorf | error-const | fail | panic
	Seed uint64 `json:"seed"`
}

type c12 struct{}

func init() { register(c12{}) }

func (c12) ID() string       { return "C12" }
func (c12) NewCase() any     { return &C12Case{} }
func (c12) Cases(c *Ctx) int { return c.Pick(150, 4000) }

var c12Kinds = []string{"Int", "Int8", "Int16", "Int32", "Int64", "Uint", "Uint8", "Uint16", "Uint32", "Uint64", "Byte"}

func (c12) Gen(dt *drv.T, c *Ctx) any {
	cs := &C12Case{Seed: drv.Uint64Range(1, 1<<62).Draw(dt, "seed")}
	cs.How = pick(dt, "how", "", "", "errorf", "errorf", "error-const", "fail", "panic")
	if chance(dt, "collection", 7) {
		cs.What = pick(dt, "coll", "slice", "string", "map", "mapbool", "distinct", "mapsmall", "stringof", "stringmax", "sliceN", "stringN", "mapN")
		cs.IK = pick(dt, "elem", "Int", "Uint8", "Int64", "Uint16")
		cs.K = drv.IntRange(0, 32).Draw(dt, "k")
		switch cs.What {
		case "mapbool":
			// collections over tiny domains: generation often ends because no new key can be found, not because the
			// generator decided to stop; the boundary is a collection of exactly k elements all the same
			cs.D = 2
			cs.K = drv.IntRange(0, 2).Draw(dt, "ksmall")
		case "distinct", "mapsmall":
			cs.D = drv.IntRange(2, 6).Draw(dt, "domain")
			cs.K = drv.IntRange(0, cs.D).Draw(dt, "ksmall")
		case "sliceN", "stringN", "mapN":
			// collections with an upper length limit above the threshold: SliceOfN(.., 0, k+D), StringN(-1, k+D, -1), MapOfN
			cs.D = drv.IntRange(0, 12).Draw(dt, "slack")
		case "stringof":
			cs.D = drv.IntRange(1, 3).Draw(dt, "alphabet")
		case "stringmax":
			cs.D = drv.IntRange(1, 12).Draw(dt, "maxlen") // bytes
			cs.K = drv.IntRange(0, cs.D).Draw(dt, "ksmall")
		}
		return cs
	}
	cs.What = "int"
	cs.IK = drv.SampledFrom(c12Kinds).Draw(dt, "ik")
	if intSigned(cs.IK) {
		cs.ST = genSBound(dt, cs.IK, "t")
		cs.Up = cs.ST > 0
		if chance(dt, "trivialdir", 5) {
			cs.Up = !cs.Up
		}
	} else {
		cs.UT = genUBound(dt, cs.IK, "t")
		cs.Up = !chance(dt, "trivialdir", 5)
	}
	return cs
}

// c12Prop builds the threshold property and a getter for the value drawn by the latest invocation.
func c12Prop(cs *C12Case) (prop func(*rapid.T), last func() any) {
	var v any
	last = func() any { return v }
	g := buildInt(&GenSpec{K: "int", IK: cs.IK})
	// the way the property reports the breach is the user's business: fatal or not, with the offending value in the
	// message or without, or a panic
	fail := func(t *rapid.T, format string, x any) {
		switch cs.How {
		case "errorf":
			t.Errorf(format, x)
		case "error-const":
			t.Error("breach")
		case "fail":
			t.Fail()
		case "panic":
			panic(fmt.Sprintf(format, x))
		default:
			t.Fatalf(format, x)
		}
	}
	switch cs.What {
	case "int":
		signed := intSigned(cs.IK)
		prop = func(t *rapid.T) {
			v = nil
			x := g.Draw(t, "v")
			v = x
			var bad bool
			if signed {
				s := reflect.ValueOf(x).Int()
				bad = (cs.Up && s >= cs.ST) || (!cs.Up && s <= cs.ST)
			} else {
				u := reflect.ValueOf(x).Uint()
				bad = (cs.Up && u >= cs.UT) || (!cs.Up && u <= cs.UT)
			}
			if bad {
				fail(t, "beyond the threshold: %v", x)
			}
		}
	case "slice":
		sg := rapid.SliceOf(g)
		prop = func(t *rapid.T) {
			v = nil
			x := sg.Draw(t, "v")
			v = x
			if len(x) >= cs.K {
				fail(t, "too long: %d", len(x))
			}
		}
	case "string":
		sg := rapid.String()
		prop = func(t *rapid.T) {
			v = nil
			x := sg.Draw(t, "v")
			v = x
			if utf8.RuneCountInString(x) >= cs.K {
				fail(t, "too long: %d", utf8.RuneCountInString(x))
			}
		}
	case "mapbool", "distinct", "mapsmall", "stringof", "stringmax", "sliceN", "stringN", "mapN":
		var cg *rapid.Generator[any]
		switch cs.What {
		case "sliceN":
			cg = rapid.SliceOfN(g, 0, cs.K+cs.D).AsAny()
		case "stringN":
			cg = rapid.StringN(-1, cs.K+cs.D, -1).AsAny()
		case "mapN":
			cg = rapid.MapOfN(g, rapid.Bool(), 0, cs.K+cs.D).AsAny()
		case "mapbool":
			cg = rapid.MapOf(rapid.Bool(), g).AsAny()
		case "distinct":
			cg = rapid.SliceOfDistinct(rapid.ByteRange(0, byte(cs.D-1)), rapid.ID[byte]).AsAny()
		case "mapsmall":
			cg = rapid.MapOf(rapid.IntRange(0, cs.D-1), g).AsAny()
		case "stringof":
			cg = rapid.StringOf(rapid.RuneFrom([]rune("aé目")[:cs.D])).AsAny()
		case "stringmax":
			cg = rapid.StringN(-1, -1, cs.D).AsAny()
		}
		prop = func(t *rapid.T) {
			v = nil
			x := cg.Draw(t, "v")
			v = x
			if n := collLen(x); n >= cs.K {
				fail(t, "too large: %d", n)
			}
		}
	case "map":
		mg := rapid.MapOf(g, rapid.Bool().AsAny())
		prop = func(t *rapid.T) {
			v = nil
			x := mg.Draw(t, "v")
			v = x
			if len(x) >= cs.K {
				fail(t, "too large: %d", len(x))
			}
		}
	}
	return
}

func (c12) Run(c *Ctx, csAny any) Outcome {
	cs := csAny.(*C12Case)
	out := Outcome{}
	dir := EnterCaseDir()
	defer LeaveCaseDir(dir)
	prop, last := c12Prop(cs)
	// "given enough time": the shrink time is set far above need, so that a slow minimization is never mistaken
	// for an inexact one
	obs := RunCheck(CheckCfg{Name: "TestC12", Seed: cs.Seed, Checks: 5000, ShrinkNS: 600e9, NoFailFile: true}, prop)
	rep := ParseReport(obs)
	if obs.Escaped != nil {
		out.Viol = violf("C12:panic-escaped-check", "a panic escaped rapid.Check: %v", obs.Escaped)
		return out
	}
	if rep.Kind != "failed" && !(rep.Kind == "panic" && cs.How == "panic") {
		if rep.Kind == "" && !obs.Failed {
			out.Classes = append(out.Classes, "no-failure-found(inconclusive)")
			return out
		}
		out.Viol = violf("C12:unexpected-report", "threshold property reported %q %q", rep.Kind, rep.Msg)
		return out
	}
	got := last()
	out.Classes = append(out.Classes, "what-"+cs.What)
	switch cs.What {
	case "int":
		if intSigned(cs.IK) {
			want := cs.ST
			if (cs.Up && cs.ST <= 0) || (!cs.Up && cs.ST >= 0) {
				want = 0
			}
			g := reflect.ValueOf(got).Int()
			mag := want
			if mag < 0 {
				mag = -mag
			}
			out.NonTrivial = mag > 4 || want == -9223372036854775808
			out.Classes = append(out.Classes, fmt.Sprintf("bitlen-%02d", bitLenS(want)))
			if g != want {
				out.Viol = violf(fmt.Sprintf("C12:inexact:int:bitlen=%d", bitLenS(want)), "%s(), fails when v %s %d: reported %d, the failing value closest to zero is %d", cs.IK, dirStr(cs.Up), cs.ST, g, want)
			}
		} else {
			want := cs.UT
			if !cs.Up {
				want = 0
			}
			g := reflect.ValueOf(got).Uint()
			out.NonTrivial = want > 4
			out.Classes = append(out.Classes, fmt.Sprintf("bitlen-%02d", bitLenU(want)))
			if g != want {
				out.Viol = violf(fmt.Sprintf("C12:inexact:uint:bitlen=%d", bitLenU(want)), "%s(), fails when v %s %d: reported %d, the failing value closest to zero is %d", cs.IK, dirStr(cs.Up), cs.UT, g, want)
			}
		}
	case "slice":
		rv := reflect.ValueOf(got)
		out.NonTrivial = cs.K >= 1
		if rv.Len() != cs.K {
			out.Viol = violf("C12:inexact:slice-length", "SliceOf(%s()), fails when len >= %d: reported a slice of %d elements", cs.IK, cs.K, rv.Len())
			return out
		}
		for i := 0; i < rv.Len(); i++ {
			if e := rv.Index(i); !(e.Kind() == reflect.Interface && e.Elem().IsZero()) {
				out.Viol = violf("C12:inexact:slice-elements", "SliceOf(%s()), fails when len >= %d: reported %v, want all zero", cs.IK, cs.K, got)
				return out
			}
		}
	case "string":
		out.NonTrivial = cs.K >= 1
		if n := utf8.RuneCountInString(got.(string)); n != cs.K {
			out.Viol = violf("C12:inexact:string-length", "String(), fails when it has >= %d runes: reported %q (%d runes)", cs.K, got, n)
		}
	case "mapbool", "distinct", "mapsmall", "stringof", "stringmax", "sliceN", "stringN", "mapN":
		out.NonTrivial = cs.K >= 1
		if n := collLen(got); n != cs.K && (cs.What == "sliceN" || cs.What == "stringN" || cs.What == "mapN") {
			out.Viol = violf("C12:inexact:bounded-collection", "%s with the upper limit %d, fails when it has >= %d elements: reported %d elements", cs.What, cs.K+cs.D, cs.K, n)
		} else if n != cs.K {
			out.Viol = violf("C12:inexact:small-domain-collection", "%s (domain / limit %d), fails when it has >= %d elements: reported %#v (%d elements)", cs.What, cs.D, cs.K, got, n)
		}
	case "map":
		out.NonTrivial = cs.K >= 1
		if n := reflect.ValueOf(got).Len(); n != cs.K {
			out.Viol = violf("C12:inexact:map-size", "MapOf(%s(), Bool()), fails when len >= %d: reported a map of %d entries", cs.IK, cs.K, n)
		}
	}
	return out
}

// collLen: number of elements of a slice or map, number of runes of a string.
func collLen(x any) int {
	if s, ok := x.(string); ok {
		return utf8.RuneCountInString(s)
	}
	if x == nil {
		return 0
	}
	return reflect.ValueOf(x).Len()
}

func dirStr(up bool) string {
	if up {
		return ">="
	}
	return "<="
}

func bitLenS(v int64) int {
	if v < 0 {
		v = -v
	}
	if v < 0 {
		return 64
	}
	return bitLenU(uint64(v))
}

func bitLenU(v uint64) int {
	n := 0
	for v > 0 {
		n++
		v >>= 1
	}
	return n
}
