package vh

import (
	"fmt"
	"strings"

	"vh/drv"
)

// C07 - the printed seed reproduces the failure; a fixed seed fixes the whole run.

type c07 struct{}

func init() { register(c07{}) }

func (c07) ID() string       { return "C07" }
func (c07) NewCase() any     { return &CheckCase{} }
func (c07) Cases(c *Ctx) int { return c.Pick(500, 12000) }

func (c07) Gen(dt *drv.T, c *Ctx) any {
	cs := &CheckCase{}
	if chance(dt, "longrun", 1) && drv.Bool().Draw(dt, "longrun2") && drv.Bool().Draw(dt, "longrun3") && (c.Thorough() || (drv.Bool().Draw(dt, "longrun4") && drv.Bool().Draw(dt, "longrun5"))) {
		// a long run: the first falsified test case comes after thousands of test cases that have consumed
		// tens of millions of 64-bit words between them; its seed has to reproduce it all the same
		m := pick(dt, "longmod", 6007, 9001, 14009)
		cs.Prog = &Prog{Body: []*Stmt{
			{Op: "draw", Label: "d1", Gen: &GenSpec{K: "int", IK: "Int", Mode: "range", SA: 0, SB: 1 << 30}},
			{Op: "draw", Label: "big", Gen: &GenSpec{K: "string", Min: 1200, Max: 1500, MaxLen: -1}},
			{Op: "if", Cond: &Cond{Draw: 0, Op: "mod", M: int64(m), C: int64(m - 1 - drv.IntRange(0, 100).Draw(dt, "longres"))}, Body: []*Stmt{{Op: "sig", Kind: "Fatalf", Site: 1}}}, // a residue that small values (which the biased generators favour) do not have
		}}
		cs.Cfg = CheckCfg{Name: "TestC07", Checks: 120000, Seed: drv.Uint64Range(1, 1<<62).Draw(dt, "seed"), NoFailFile: true, ShrinkNS: 0}
		cs.Long = true
		return cs
	}
	pc := ProgCfg{
		Gen:      GenCfg{Depth: c.Pick(1, 2), RejectHeavy: chance(dt, "rejheavy", 30), SmallInts: true, Custom: true, MakeFlat: true},
		MaxStmts: 4, Repeat: true, NoSkipInSM: true, Cleanups: false, Skips: true, SigPct: 90,
	}
	cs.Prog = GenProg(dt, pc)
	// a rare data-dependent failure, so that the first falsified test case has a high index in many cases
	m := pick(dt, "raremod", 3, 7, 20, 60, 150)
	cs.Prog.Body = append(cs.Prog.Body, &Stmt{Op: "if", Cond: &Cond{Draw: 0, Op: "mod", M: int64(m), C: int64(drv.IntRange(0, m-1).Draw(dt, "rareres"))},
		Body: []*Stmt{genSig(dt, allSigKinds)}})
	cs.Cfg = genCheckCfg(dt, "TestC07", 200)
	cs.Cfg.NoFailFile = true
	cs.Cfg.ShrinkNS = pick(dt, "shrink", int64(0), 2e9, 2e9)
	return cs
}

func (c07) Run(c *Ctx, csAny any) Outcome {
	cs := csAny.(*CheckCase)
	out := Outcome{}
	dir := EnterCaseDir()
	defer LeaveCaseDir(dir)
	r1 := runProg(cs.Cfg, cs.Prog)
	if cs.Long {
		out.Classes = append(out.Classes, "long-run(thousands-of-cases,tens-of-millions-of-words)")
		if r1.FirstBad >= 6000 {
			out.Classes = append(out.Classes, "long-run-first-failure-after-6000-cases(>2^24-words)")
		}
	}
	if r1.Obs.Escaped != nil {
		if strings.HasPrefix(fmt.Sprint(r1.Obs.Escaped), "flag rejected") {
			out.Viol = violf("C07:seed-flag-rejected", "-rapid.seed=%d: %v", cs.Cfg.Seed, r1.Obs.Escaped)
			return out
		}
		out.Viol = violf("C07:panic-escaped-check", "a panic escaped rapid.Check: %v", r1.Obs.Escaped)
		return out
	}

	if r1.Obs.Dur.Seconds() > 0.5 {
		out.Classes = append(out.Classes, "slow>0.5s")
	}
	// fixed seed => identical run
	r2 := runProg(cs.Cfg, cs.Prog)
	if v := compareRuns(cs.Cfg, r1, r2, fmt.Sprintf("-rapid.seed=%d twice", cs.Cfg.Seed)); v != nil {
		out.Viol = prefixKey("C07", v)
		return out
	}
	if r1.Rep.Kind != r2.Rep.Kind || r1.Rep.After != r2.Rep.After || r1.Rep.Seed != r2.Rep.Seed {
		out.Viol = violf("C07:rerun-differs", "-rapid.seed=%d twice: reports differ: %s after %d (seed %d) vs %s after %d (seed %d)", cs.Cfg.Seed,
			r1.Rep.Kind, r1.Rep.After, r1.Rep.Seed, r2.Rep.Kind, r2.Rep.After, r2.Rep.Seed)
		return out
	}
	full := cs.Cfg.ShrinkNS == 0 || (r1.Obs.Dur.Nanoseconds() < cs.Cfg.ShrinkNS/4 && r2.Obs.Dur.Nanoseconds() < cs.Cfg.ShrinkNS/4)
	if full && r1.Last != nil && (!r1.Last.Same(r2.Last) || r1.Rep.Msg != r2.Rep.Msg) {
		out.Viol = violf("C07:rerun-differs", "-rapid.seed=%d twice: minimized results differ: [%s] %q vs [%s] %q", cs.Cfg.Seed, r1.Last.Outcome(), r1.Rep.Msg, r2.Last.Outcome(), r2.Rep.Msg)
		return out
	}

	if r1.FirstBad < 0 || (r1.Rep.Kind != "failed" && r1.Rep.Kind != "panic" && r1.Rep.Kind != "flaky") {
		out.Classes = append(out.Classes, "no-reported-failure")
		return out
	}
	if r1.Rep.Kind == "flaky" {
		// the program is a deterministic function of its draws: "can not reproduce" means that the run was not
		// re-run from the seed of the falsified test case
		out.Viol = violf("C07:seed-does-not-reproduce", "base seed %d: test case #%d falsified the property, but re-running it from its seed did not reproduce the failure: %s", cs.Cfg.Seed, r1.FirstBad+1, firstLine(r1.Rep.Repro))
		out.NonTrivial = r1.FirstBad >= 1
		return out
	}
	// count the valid cases before the first falsified one
	idx := r1.FirstBad
	out.Classes = append(out.Classes, fmt.Sprintf("first-falsified-index-%s", bucket(idx)))
	out.NonTrivial = idx >= 1
	if !r1.Rep.HasSeed {
		out.Viol = violf("C07:no-seed-printed", "the failure report does not name a seed: %q", r1.Rep.Repro)
		return out
	}
	cfg3 := cs.Cfg
	cfg3.Seed = r1.Rep.Seed
	r3 := runProg(cfg3, cs.Prog)
	if r3.Obs.Escaped != nil && strings.HasPrefix(fmt.Sprint(r3.Obs.Escaped), "flag rejected") {
		out.Viol = violf("C07:seed-flag-rejected", "the printed seed %d is not accepted by -rapid.seed: %v", r1.Rep.Seed, r3.Obs.Escaped)
		return out
	}
	if len(r3.X.Log) == 0 {
		out.Viol = violf("C07:seed-does-not-reproduce", "-rapid.seed=%d: the property was not invoked", r1.Rep.Seed)
		return out
	}
	orig := r1.X.Log[idx]
	if !r3.X.Log[0].Same(orig) {
		out.Viol = violf("C07:seed-does-not-reproduce", "base seed %d, first falsified case #%d [%s]; with the printed -rapid.seed=%d the first test case is [%s]",
			cs.Cfg.Seed, idx+1, orig.Outcome(), r1.Rep.Seed, r3.X.Log[0].Outcome())
		return out
	}
	if (r3.Rep.Kind != "failed" && r3.Rep.Kind != "panic") || r3.Rep.After != 0 {
		out.Viol = violf("C07:seed-does-not-reproduce", "with the printed -rapid.seed=%d Check reports %q after %d tests (want a failure after 0 tests)", r1.Rep.Seed, r3.Rep.Kind, r3.Rep.After)
		return out
	}
	if cs.Cfg.Seed%3 == 0 {
		// a failure that comes from a fail file: if its report names a seed as well, that seed has to reproduce the
		// reported failure like any other printed seed. The file's header is no evidence: the file may have been
		// copied, edited, or saved before the code changed (here: same words, another seed field).
		cfg4 := cs.Cfg
		cfg4.NoFailFile, cfg4.ShrinkNS = false, 0
		runProg(cfg4, cs.Prog)
		if files := FailFiles(); len(files) == 1 {
			if version, seed, words, err := ParseFailFile(files[0]); err == nil {
				writeFailFile(files[0], version, seed+1, words, "header edited")
				cfg5 := cs.Cfg
				cfg5.Seed, cfg5.NoFailFile = 0, true
				r5 := runProg(cfg5, cs.Prog)
				out.Classes = append(out.Classes, "failure-from-a-fail-file")
				if r5.Rep.HasSeed && (r5.Rep.Kind == "failed" || r5.Rep.Kind == "panic") && r5.Rep.FailFile != "" && len(r5.X.Log) > 0 {
					cfg6 := cs.Cfg
					cfg6.Seed = r5.Rep.Seed
					_ = removeFile(files[0])
					r6 := runProg(cfg6, cs.Prog)
					if len(r6.X.Log) == 0 || !r6.X.Log[0].Same(r5.X.Log[0]) || r6.Rep.After != 0 || (r6.Rep.Kind != "failed" && r6.Rep.Kind != "panic") {
						got := "<none>"
						if len(r6.X.Log) > 0 {
							got = r6.X.Log[0].Outcome()
						}
						out.Viol = violf("C07:seed-does-not-reproduce", "a failure replayed from a fail file [%s] was reported with the hint -rapid.seed=%d; with that seed the first test case is [%s] and Check reports %q after %d tests", r5.X.Log[0].Outcome(), r5.Rep.Seed, got, r6.Rep.Kind, r6.Rep.After)
						return out
					}
				}
			}
		}
		for _, f := range FailFiles() {
			_ = removeFile(f)
		}
	}
	return out
}

func bucket(i int) string {
	switch {
	case i == 0:
		return "0"
	case i < 5:
		return "1-4"
	case i < 20:
		return "5-19"
	case i < 60:
		return "20-59"
	default:
		return "60+"
	}
}
