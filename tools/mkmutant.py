#!/usr/bin/env python3
"""tools/mkmutant.py <name> <props> <what> <file> <old> <new> [<file> <old> <new> ...]: writes mutants/<name>.diff
(a patch against the current /repo working tree that replaces the first occurrence of old by new in file)."""
import difflib, os, sys
VERIF = os.path.dirname(os.path.dirname(os.path.abspath(__file__)))
name, props, what = sys.argv[1:4]
rest = sys.argv[4:]
out = ["# property: %s\n" % props, "# what: %s\n" % what]
for i in range(0, len(rest), 3):
    f, old, new = rest[i:i + 3]
    src = open(os.path.join("/repo", f)).read()
    if old not in src:
        sys.exit("%s: text not found in %s: %r" % (name, f, old))
    dst = src.replace(old, new, 1)
    out += list(difflib.unified_diff(src.splitlines(True), dst.splitlines(True), "a/" + f, "b/" + f))
os.makedirs(os.path.join(VERIF, "mutants"), exist_ok=True)
open(os.path.join(VERIF, "mutants", name + ".diff"), "w").writelines(out)
print("wrote", name)
