package vh

import (
	"encoding/binary"
	"encoding/json"
	"fmt"
	"os"
	"testing"

	"pgregory.net/rapid"
	"vh/drv"
)

// Native coverage-guided fuzz targets (thorough tier extras of C03 and C13). The semantic oracle is inside the
// target; a crasher is converted into an ordinary JSON replay file by the "fuzzconv" child mode.

// fuzzSpecs is a fixed table of hostile generator expressions: deterministic, built by the driver's Example.
var fuzzSpecs = func() []*GenSpec {
	g := drv.Custom(func(dt *drv.T) *GenSpec {
		return GenGenSpec(dt, GenCfg{Depth: drv.IntRange(0, 3).Draw(dt, "depth"), Hostile: true, Custom: true, Make: true})
	})
	var out []*GenSpec
	for i := 0; i < 300; i++ {
		out = append(out, g.Example(i+1))
	}
	// hand-picked arithmetic hot spots
	out = append(out,
		&GenSpec{K: "int", IK: "Int64"}, &GenSpec{K: "int", IK: "Uint64"},
		&GenSpec{K: "int", IK: "Int64", Mode: "range", SA: -9223372036854775808, SB: -9223372036854775807},
		&GenSpec{K: "int", IK: "Int64", Mode: "range", SA: -9223372036854775808, SB: 9223372036854775807},
		&GenSpec{K: "int", IK: "Uint64", Mode: "range", UA: 18446744073709551614, UB: 18446744073709551615},
		&GenSpec{K: "float", Bits: 64}, &GenSpec{K: "float", Bits: 32},
		&GenSpec{K: "float", Bits: 64, Mode: "range", UA: 0x0000000000000001, UB: 0x0010000000000000},
		&GenSpec{K: "float", Bits: 64, Mode: "range", UA: 0xfff0000000000000, UB: 0x7ff0000000000000},
		&GenSpec{K: "float", Bits: 32, Mode: "range", UA: 0x3ff0000000000000, UB: 0x3ff0000020000000},
	)
	return out
}()

func decodeWords(b []byte) []uint64 {
	var w []uint64
	for len(b) > 0 {
		var tmp [8]byte
		n := copy(tmp[:], b)
		w = append(w, binary.LittleEndian.Uint64(tmp[:]))
		b = b[n:]
	}
	return w
}

func FuzzC03(f *testing.F) {
	for i := 0; i < len(fuzzSpecs); i += 7 {
		sel := []byte{byte(i), byte(i >> 8)}
		f.Add(append(sel, make([]byte, 64)...))
		ones := make([]byte, 64)
		for j := range ones {
			ones[j] = 0xff
		}
		f.Add(append(sel, ones...))
		f.Add(append(sel, WordsToBytes([]uint64{1 << 63, 1<<63 - 1, 1, 0, 1 << 52, 1<<53 - 1, 0x7ff, 64, 65, 5, 3})...))
	}
	runners := make([]*c03Runner, len(fuzzSpecs))
	f.Fuzz(func(t *testing.T, data []byte) {
		if len(data) < 2 {
			return
		}
		i := (int(data[0]) | int(data[1])<<8) % len(fuzzSpecs)
		if runners[i] == nil {
			runners[i] = newC03Runner(fuzzSpecs[i])
		}
		r := runners[i]
		r.breach = ""
		// MakeFuzz fails the fuzz test if the contract checker (inside the property) or the library itself fails
		rapid.MakeFuzz(r.x.Prop)(t, data[2:])
	})
}

// FuzzC13 is the Bool anchor: n Bool draws must receive bit 0 of the little-endian words (short tail zero
// padded), exactly min(n, number of words) of them.
func FuzzC13(f *testing.F) {
	f.Add([]byte{3, 1, 0, 0, 0, 0, 0, 0, 0, 0, 0, 0, 0, 0, 0, 0, 0, 1})
	f.Add([]byte{40})
	f.Add(append([]byte{200}, make([]byte, 801)...))
	f.Fuzz(func(t *testing.T, data []byte) {
		if len(data) < 1 {
			return
		}
		n := int(data[0])
		input := data[1:]
		words := decodeWords(input)
		var got []bool
		defer func() {
			want := n
			if len(words) < want {
				want = len(words)
			}
			if len(got) != want {
				t.Errorf("C13 anchor: %d Bool draws requested, %d words: %d draws succeeded", n, len(words), len(got))
			}
			for i, b := range got {
				if b != (words[i]&1 == 1) {
					t.Errorf("C13 anchor: draw %d is %v, word %#x", i, b, words[i])
				}
			}
		}()
		g := rapid.Bool()
		rapid.MakeFuzz(func(rt *rapid.T) {
			got = got[:0]
			for i := 0; i < n; i++ {
				got = append(got, g.Draw(rt, "b"))
			}
		})(t, input)
	})
}

// fuzzConv converts a native crasher (go test fuzz v1 corpus file) into a JSON replay file.
func fuzzConv(target, corpusFile, out string) error {
	b, err := os.ReadFile(corpusFile)
	if err != nil {
		return err
	}
	data, err := parseCorpusBytes(b)
	if err != nil {
		return err
	}
	var rf ReplayFile
	switch target {
	case "FuzzC03":
		if len(data) < 2 {
			return fmt.Errorf("short input")
		}
		i := (int(data[0]) | int(data[1])<<8) % len(fuzzSpecs)
		cs := &C03Case{Spec: fuzzSpecs[i], Streams: [][]uint64{decodeWords(data[2:])}}
		rf = ReplayFile{Property: "C03", Key: "C03:native-fuzz-crasher", Msg: "found by go test -fuzz=FuzzC03: " + corpusFile, Case: caseJSON(cs)}
	case "FuzzC13":
		cs := &C13Case{NBools: int(data[0]), Input: data[1:], Steps: 1}
		rf = ReplayFile{Property: "C13", Key: "C13:native-fuzz-crasher", Msg: "found by go test -fuzz=FuzzC13: " + corpusFile, Case: caseJSON(cs)}
	default:
		return fmt.Errorf("unknown target %s", target)
	}
	js, _ := json.MarshalIndent(rf, "", " ")
	return os.WriteFile(out, js, 0o664)
}
