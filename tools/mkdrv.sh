#!/bin/sh
# Regenerates /verif/h/drv: a renamed verbatim copy of the non-test sources of pgregory.net/rapid v1.3.0
# (MPL-2.0) from the module cache. The committed copy is what the harness builds; this script only
# documents how it was made. The driver and the subject (/repo) cannot both be called pgregory.net/rapid
# in one build, hence the rename.
set -e
SRC="${GOMODCACHE:-$(go env GOMODCACHE)}/pgregory.net/rapid@v1.3.0"
DST="$(dirname "$0")/../h/drv"
mkdir -p "$DST"
for f in "$SRC"/*.go; do
  case "$f" in *_test.go) continue;; esac
  sed -e 's#pgregory.net/rapid\.#vh/drv.#g' \
      -e 's#"rapid\.\([a-z]*\)"#"drv.\1"#g' \
      -e 's#"RAPID_#"VDRV_#g' \
      -e 's#"testdata", "rapid"#"testdata", "drv"#g' \
      -e 's#^package rapid$#package drv#' "$f" > "$DST/$(basename "$f")"
  chmod 644 "$DST/$(basename "$f")"
done
cp "$SRC/LICENSE" "$DST/LICENSE"
# one local change on top of the verbatim copy: forced-stop coin records a zero block (the pinned tree's
# defect F1 also exists in v1.3.0 and would make driver-side shrinking of collection-heavy cases unreliable)
patch -p0 -d "$DST/../.." < "$(dirname "$0")/drv-local.patch" || true
