package vh

import (
	"encoding/json"
	"fmt"
	"os"
	"os/exec"
	"strings"

	"pgregory.net/rapid"
	"vh/drv"
)

// C04 - draws are a pure function of the bitstream.

type NoiseOp struct {
	Kind  string   `json:"kind"` // check example string fuzz
	Prog  *Prog    `json:"prog,omitempty"`
	Gen   *GenSpec `json:"gen,omitempty"`
	Seed  uint64   `json:"seed,omitempty"`
	Bytes []byte   `json:"bytes,omitempty"`
}

type C04Case struct {
	Case    *CheckCase `json:"case"`
	Noise   []*NoiseOp `json:"noise,omitempty"`
	ExGen   *GenSpec   `json:"exgen,omitempty"` // Example(seed) clause
	ExSeeds []int      `json:"exseeds,omitempty"`
	Fresh   bool       `json:"fresh,omitempty"` // compare the Example values with those of a fresh process
	// the second run (same seed) has output flags set that the first one had not: -rapid.v, -rapid.log, -rapid.debug
	// change what is printed, not what is drawn
	R2Flags string `json:"r2flags,omitempty"`
}

type c04 struct{}

func init() { register(c04{}) }

func (c04) ID() string       { return "C04" }
func (c04) NewCase() any     { return &C04Case{} }
func (c04) Cases(c *Ctx) int { return c.Pick(1500, 30000) }

func progCfgReplay(c *Ctx) ProgCfg {
	return ProgCfg{
		Gen:      GenCfg{Depth: c.Pick(2, 3), RejectHeavy: true, SmallInts: true, Custom: true, CustomStmts: true, LenCap: 8, MakeFlat: true},
		MaxStmts: c.Pick(4, 6), Repeat: true, Cleanups: false, Skips: false, SigPct: 0, FailAtEnd: true,
	}
}

func genNoise(dt *drv.T, c *Ctx) []*NoiseOp {
	var out []*NoiseOp
	n := drv.IntRange(0, 3).Draw(dt, "nnoise")
	for i := 0; i < n; i++ {
		op := &NoiseOp{Kind: pick(dt, "noisekind", "check", "example", "string", "fuzz")}
		switch op.Kind {
		case "check", "fuzz":
			op.Prog = GenProg(dt, ProgCfg{Gen: GenCfg{Depth: 1, SmallInts: true}, MaxStmts: 3, Repeat: true, SigPct: 50})
			op.Seed = drv.Uint64Range(1, 1<<40).Draw(dt, "noiseseed")
			if op.Kind == "fuzz" {
				op.Bytes = drv.SliceOfN(drv.Byte(), 0, 64).Draw(dt, "noisebytes")
			}
		case "example":
			op.Gen = GenGenSpec(dt, GenCfg{Depth: 1, SmallInts: true})
			op.Seed = drv.Uint64Range(0, 1000).Draw(dt, "exseed")
		}
		out = append(out, op)
	}
	return out
}

// rejBulkProg: one collection of many values whose generators reject about half of the raw samples they draw
// ("out-of-range samples": spans just above a power of two), then an unconditional failure. Long runs of rejected
// samples only occur in bulk; the recording of such a test case, pruned, has to replay to the same values.
func rejBulkProg(dt *drv.T) *Prog {
	var g *GenSpec
	if chance(dt, "bulkperm", 25) {
		// swap indices: unbiased draws from every span below n
		g = &GenSpec{K: "perm", N: (1 << drv.IntRange(5, 11).Draw(dt, "permk")) + drv.IntRange(1, 3).Draw(dt, "permplus")}
	} else {
		// the die that selects one of T rune tables: an unbiased draw from T values per rune; T = 2^k+1
		t := pick(dt, "ntables", 17, 33, 33)
		rs := &GenSpec{K: "runefrom"}
		for i := 0; i < t; i++ {
			rs.Tables = append(rs.Tables, tableNames[i%len(tableNames)])
		}
		n := 1500 + 500*drv.IntRange(0, 4).Draw(dt, "bulkn")
		g = &GenSpec{K: "string", Min: n, Max: n, MaxLen: -1, Sub: []*GenSpec{rs}}
	}
	return &Prog{Body: []*Stmt{{Op: "draw", Label: "bulk", Gen: g}, {Op: "sig", Kind: "Fatalf", Site: 1}}}
}

func (c04) Gen(dt *drv.T, c *Ctx) any {
	cs := &C04Case{Case: &CheckCase{}}
	if chance(dt, "rejbulk", 3) {
		cs.Case.Prog = rejBulkProg(dt)
		cs.Case.Cfg = CheckCfg{Name: "TestC04", Seed: drv.Uint64Range(1, 1<<62).Draw(dt, "seed"), Checks: 2, ShrinkNS: 0}
		return cs
	}
	cs.Case.Prog = GenProg(dt, progCfgReplay(c))
	cs.Case.Cfg = genCheckCfg(dt, "TestC04", 12)
	cs.Case.Cfg.ShrinkNS = pick(dt, "shrink", int64(0), 0, 0, 3e7)
	cs.Case.Cfg.NoFailFile = chance(dt, "nofailfile", 30)
	cs.Noise = genNoise(dt, c)
	if chance(dt, "r2flags", 35) {
		cs.R2Flags = pick(dt, "whichflags", "log", "debug", "v", "v+debug", "log+debug")
	}
	if chance(dt, "exclause", 30) {
		cs.ExGen = GenGenSpec(dt, GenCfg{Depth: 2, SmallInts: true, RejectHeavy: true})
		cs.ExSeeds = drv.SliceOfN(drv.IntRange(0, 1<<30), 1, 4).Draw(dt, "exseeds")
		if chance(dt, "fresh", 12) {
			cs.Fresh = true
			if chance(dt, "freshre", 60) {
				cs.ExGen = &GenSpec{K: pick(dt, "rek", "strmatch", "bytesmatch"), Re: pick(dt, "re", regexpPool...)}
			}
		}
	}
	return cs
}

// exampleOf calls g.Example(seed) and reports a panic as an error (generators that cannot produce a value
// panic in Example by design).
func exampleOf(g *rapid.Generator[any], seed int) (s string) {
	defer func() {
		if r := recover(); r != nil {
			s = "panic:" + firstLine(fmt.Sprint(r))
		}
	}()
	return Canon(g.Example(seed))
}

func runNoise(ops []*NoiseOp, main *Interp) {
	for _, op := range ops {
		switch op.Kind {
		case "check":
			x := NewInterp(op.Prog)
			RunCheck(CheckCfg{Name: "TestNoise", Seed: op.Seed, Checks: 7, ShrinkNS: 1e6, NoFailFile: true, Steps: 5}, x.Prop)
		case "fuzz":
			x := NewInterp(op.Prog)
			RunFuzzCfg(CheckCfg{Checks: 1, Steps: 5, ShrinkNS: -1}, x.Prop, op.Bytes)
		case "example":
			env := &BuildEnv{}
			env.X = NewInterp(nil)
			exampleOf(op.Gen.Build(env), int(op.Seed))
		case "string":
			for _, g := range main.gens {
				_ = g.String()
			}
		}
	}
}

func (c04) Run(c *Ctx, csAny any) Outcome {
	cs := csAny.(*C04Case)
	out := Outcome{}
	dir := EnterCaseDir()
	defer LeaveCaseDir(dir)
	cfg, prog := cs.Case.Cfg, cs.Case.Prog

	var ex1 []string
	var exg *rapid.Generator[any]
	if cs.ExGen != nil {
		env := &BuildEnv{}
		env.X = NewInterp(nil)
		exg = cs.ExGen.Build(env)
		for _, s := range cs.ExSeeds {
			ex1 = append(ex1, exampleOf(exg, s))
		}
	}

	r1 := runProg(cfg, prog)
	if r1.Obs.Escaped != nil {
		out.Viol = violf("C04:panic-escaped-check", "a panic escaped rapid.Check: %v", r1.Obs.Escaped)
		return out
	}
	if r1.FirstBad >= 0 {
		fb := r1.X.Log[r1.FirstBad]
		if fb.Rejects > 0 {
			out.NonTrivial = true
			out.Classes = append(out.Classes, "failing-run-with-rejections")
			if fb.Rejects >= 3 {
				out.Classes = append(out.Classes, "rejections>=3")
			}
		}
		if fb.ASkips > 0 {
			out.Classes = append(out.Classes, "failing-run-with-skipped-actions")
		}
		if fb.CRetries > 0 {
			out.Classes = append(out.Classes, "failing-run-with-custom-retries")
		}
	} else {
		out.Classes = append(out.Classes, "no-failure-in-run")
	}
	if len(prog.Body) == 2 && prog.Body[0].Label == "bulk" {
		out.Classes = append(out.Classes, "bulk-of-high-rejection-draws")
	}

	// (ii)/(iii) run vs. replay of the pruned recording vs. fail-file words (exact only without minimization)
	if r1.FirstBad >= 0 && (r1.Rep.Kind == "failed" || r1.Rep.Kind == "panic" || r1.Rep.Kind == "flaky") {
		fb := r1.X.Log[r1.FirstBad]
		if cfg.ShrinkNS == 0 {
			out.Classes = append(out.Classes, "pruned-replay-compared")
			for i := r1.FirstBad + 1; i < len(r1.X.Log); i++ {
				if got := r1.X.Log[i].Outcome(); !r1.X.Log[i].Same(fb) {
					out.Viol = violf("C04:replay-differs", "test case with %d observed rejections: the failing run was [%s]; invocation +%d (reproduction / pruned replay) was [%s]", fb.Rejects, fb.Outcome(), i-r1.FirstBad, got)
					return out
				}
			}
		}
		if v := oracleFailFileReplays(r1, prog); v != nil {
			out.Viol = prefixKey("C04", v)
			return out
		}
	}

	// (i) same seed again, after unrelated activity in the same process
	files := FailFiles()
	for _, f := range files {
		_ = removeFile(f)
	}
	runNoise(cs.Noise, r1.X)
	if len(cs.Noise) > 0 {
		out.Classes = append(out.Classes, "with-noise")
	}
	cfg2 := cfg
	if cs.R2Flags != "" {
		cfg2.Log = strings.Contains(cs.R2Flags, "log")
		cfg2.Debug = strings.Contains(cs.R2Flags, "debug")
		cfg2.Verbose = cfg.Verbose || strings.Contains(cs.R2Flags, "v")
		out.Classes = append(out.Classes, "second-run-with-output-flags")
	}
	r2 := runProg(cfg2, prog)
	if v := compareRuns(cfg, r1, r2, fmt.Sprintf("same seed %d (second run with flags %q)", cfg.Seed, cs.R2Flags)); v != nil {
		out.Viol = prefixKey("C04", v)
		return out
	}
	if cs.ExGen != nil {
		out.Classes = append(out.Classes, "example-clause")
		for i, s := range cs.ExSeeds {
			if got := exampleOf(exg, s); got != ex1[i] {
				out.Viol = violf("C04:example-differs", "Example(%d) gave %s first and %s later", s, ex1[i], got)
				return out
			}
		}
		if cs.Fresh {
			// the same expression and seeds in a fresh process, which has no history of other generators at all
			js, _ := json.Marshal(struct {
				Spec  *GenSpec `json:"spec"`
				Seeds []int    `json:"seeds"`
			}{cs.ExGen, cs.ExSeeds})
			cmd := exec.Command(os.Getenv("VERIF_BIN"), "-test.run", "^$")
			cmd.Env = append(os.Environ(), "VERIF_CHILD=example", "VERIF_CASE="+string(js))
			if b, err := cmd.Output(); err == nil {
				out.Classes = append(out.Classes, "fresh-process-compared")
				lines := strings.Split(strings.TrimSpace(string(b)), "\n")
				for i := range cs.ExSeeds {
					if i < len(lines) && lines[i] != ex1[i] {
						out.Viol = violf("C04:depends-on-process-history", "Example(%d) of %s gives %s in this process (which has used many other generators before) and %s in a fresh process", cs.ExSeeds[i], cs.ExGen.desc(), ex1[i], lines[i])
						return out
					}
				}
			}
		}
	}
	return out
}
