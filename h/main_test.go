package vh

import (
	"fmt"
	"os"
	"testing"
)

var shardOK = true

func TestMain(m *testing.M) {
	if os.Getenv("VERIF_CHILD") != "" {
		childMain()
		return
	}
	m.Run() // sub-tests hosted for the library under test may fail on purpose: the exit code is ours
	if os.Getenv("VERIF_PROP") == "" {
		os.Exit(0)
	}
	if !shardOK {
		os.Exit(3)
	}
	os.Exit(0)
}

// TestShard runs one shard of one property check (selected through the environment).
func TestShard(t *testing.T) {
	if os.Getenv("VERIF_PROP") == "" {
		t.Skip("no VERIF_PROP")
	}
	t.Parallel()
	defer close(hostCh)
	defer func() {
		if r := recover(); r != nil {
			shardOK = false
			fmt.Fprintf(os.Stderr, "harness: shard panicked: %v\n", r)
			panic(r)
		}
	}()
	if !RunShardFromEnv() {
		shardOK = false
	}
}

// TestHost runs sub-tests on behalf of the shard (MakeFuzz / MakeCheck need a real *testing.T).
func TestHost(t *testing.T) {
	if os.Getenv("VERIF_PROP") == "" {
		t.Skip("no VERIF_PROP")
	}
	t.Parallel()
	serveHost(t)
}
