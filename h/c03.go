package vh

import (
	"fmt"
	"math"
	"strings"
	"time"

	"pgregory.net/rapid"
	"vh/drv"
)

// C03 - generated values satisfy the generator's contract, for every bitstream.

type C03Case struct {
	Spec      *GenSpec   `json:"spec"`
	ExSeeds   []int      `json:"exseeds,omitempty"`   // Example(seed)
	CheckSeed uint64     `json:"checkseed,omitempty"` // Check with this seed (PRNG streams)
	Streams   [][]uint64 `json:"streams,omitempty"`   // explicit word sequences through MakeFuzz
	Derive    []Mutation `json:"derive,omitempty"`    // mutations of a stream that is known to succeed
}

// Mutation of a recorded stream: truncate / overwrite a word / append words.
type Mutation struct {
	Op  string `json:"op"` // trunc set append
	Pos int    `json:"pos"`
	W   uint64 `json:"w"`
}

type c03 struct{}

func init() { register(c03{}) }

func (c03) ID() string       { return "C03" }
func (c03) NewCase() any     { return &C03Case{} }
func (c03) Cases(c *Ctx) int { return c.Pick(2500, 60000) }

func (c03) HangLimit() time.Duration { return 120 * time.Second }

func genHostileWord(dt *drv.T) uint64 {
	switch pick(dt, "whow", "zero", "ones", "pow2", "pow2m1", "small", "uniform", "uniform", "highbit") {
	case "zero":
		return 0
	case "ones":
		return math.MaxUint64
	case "pow2":
		return uint64(1) << drv.IntRange(0, 63).Draw(dt, "wk")
	case "pow2m1":
		return uint64(1)<<drv.IntRange(1, 63).Draw(dt, "wk") - 1
	case "small":
		return drv.Uint64Range(0, 16).Draw(dt, "wsmall")
	case "highbit":
		return 1<<63 | drv.Uint64Range(0, 1<<20).Draw(dt, "wlow")
	}
	return drv.Uint64().Draw(dt, "wuni")
}

func genStream(dt *drv.T) []uint64 {
	n := drv.IntRange(0, 64).Draw(dt, "slen")
	mode := pick(dt, "smode", "mixed", "mixed", "allzero", "allones", "uniform")
	out := make([]uint64, n)
	for i := range out {
		switch mode {
		case "allzero":
		case "allones":
			out[i] = math.MaxUint64
		case "uniform":
			out[i] = drv.Uint64().Draw(dt, "w")
		default:
			out[i] = genHostileWord(dt)
		}
	}
	return out
}

func (c03) Gen(dt *drv.T, c *Ctx) any {
	cs := &C03Case{}
	cs.Spec = GenGenSpec(dt, GenCfg{Depth: drv.IntRange(0, c.Pick(3, 4)).Draw(dt, "depth"), Hostile: true, Custom: true, Make: true, BigRegexp: true})
	cs.ExSeeds = drv.SliceOfN(drv.IntRange(0, 1<<30), 0, 3).Draw(dt, "exseeds")
	cs.CheckSeed = drv.Uint64Range(1, 1<<62).Draw(dt, "checkseed")
	ns := drv.IntRange(0, 3).Draw(dt, "nstreams")
	for i := 0; i < ns; i++ {
		cs.Streams = append(cs.Streams, genStream(dt))
	}
	nm := drv.IntRange(0, 4).Draw(dt, "nmut")
	for i := 0; i < nm; i++ {
		m := Mutation{Op: pick(dt, "mop", "trunc", "set", "set", "append"), Pos: drv.IntRange(0, 40).Draw(dt, "mpos")}
		if m.Op != "trunc" {
			m.W = genHostileWord(dt)
		}
		cs.Derive = append(cs.Derive, m)
	}
	return cs
}

type c03Runner struct {
	spec   *GenSpec
	x      *Interp
	g      *rapid.Generator[any]
	breach string
	values int
	fail   bool // fail after a successful draw (to obtain the recording of a successful stream)
}

func newC03Runner(spec *GenSpec) *c03Runner {
	r := &c03Runner{spec: spec}
	r.x = NewInterp(nil)
	r.g = spec.Build(r.x.Env)
	r.x.Hook = func(x *Interp, t *rapid.T) {
		v := r.g.Draw(t, "v")
		r.values++
		if msg := spec.Contract(x.Env, v); msg != "" {
			r.breach = msg
			t.Fatalf("CONTRACT: %s", msg)
		}
		spec.Scribble(v) // the value is ours now: whatever we do to it must not show in later values
		if r.fail {
			t.Fatalf("recording wanted")
		}
	}
	return r
}

func contractKey(msg string) string {
	k := msg
	if i := strings.IndexAny(k, ":[("); i > 0 {
		k = k[:i]
	}
	return "C03:contract:" + strings.ToLower(k)
}

func (c03) Run(c *Ctx, csAny any) Outcome {
	cs := csAny.(*C03Case)
	out := Outcome{}
	dir := EnterCaseDir()
	defer LeaveCaseDir(dir)
	r := newC03Runner(cs.Spec)
	classes := map[string]bool{}

	// Example(seed): PRNG stream, the seed used verbatim
	for _, s := range cs.ExSeeds {
		func() {
			defer func() {
				if p := recover(); p != nil {
					classes["example-panicked(unsatisfiable?)"] = true
				}
			}()
			v := r.g.Example(s)
			r.values++
			if msg := cs.Spec.Contract(r.x.Env, v); msg != "" {
				out.Viol = violf(contractKey(msg), "Example(%d): %s", s, msg)
			}
			cs.Spec.Scribble(v)
		}()
		if out.Viol != nil {
			return out
		}
	}

	// Check: PRNG streams of consecutive seeds
	obs := RunCheck(CheckCfg{Name: "TestC03", Seed: cs.CheckSeed, Checks: 12, ShrinkNS: 0, NoFailFile: true}, r.x.Prop)
	rep := ParseReport(obs)
	switch {
	case obs.Escaped != nil:
		out.Viol = violf("C03:panic-escaped-check", "a panic escaped rapid.Check: %v", obs.Escaped)
	case r.breach != "":
		out.Viol = violf(contractKey(r.breach), "Check(seed %d): %s", cs.CheckSeed, r.breach)
	case rep.Kind == "only":
		classes["unsatisfiable-under-check"] = true
	case obs.Failed:
		out.Viol = violf("C03:internal-failure", "Check(seed %d) failed inside Draw without a contract breach: %s %s", cs.CheckSeed, rep.Kind, rep.Msg)
	}
	if out.Viol != nil {
		return out
	}

	// a stream that is known to succeed: the recording of a PRNG run, via the fail file
	var good []uint64
	if len(cs.Derive) > 0 {
		r.fail = true
		RunCheck(CheckCfg{Name: "TestC03", Seed: cs.CheckSeed + 1, Checks: 20, ShrinkNS: 0}, r.x.Prop)
		r.fail = false
		if w, ok := failFileWords(); ok {
			good = w
		}
		for _, f := range FailFiles() {
			_ = removeFile(f)
		}
		if r.breach != "" {
			out.Viol = violf(contractKey(r.breach), "Check(seed %d): %s", cs.CheckSeed+1, r.breach)
			return out
		}
	}
	streams := append([][]uint64{}, cs.Streams...)
	if good != nil {
		classes["derived-streams"] = true
		cur := append([]uint64{}, good...)
		for _, m := range cs.Derive {
			switch m.Op {
			case "trunc":
				if len(cur) > 0 {
					cur = cur[:m.Pos%len(cur)]
				}
			case "set":
				if len(cur) > 0 {
					cur[m.Pos%len(cur)] = m.W
				}
			case "append":
				cur = append(cur, m.W)
			}
			streams = append(streams, append([]uint64{}, cur...))
		}
	}
	for _, st := range streams {
		before := r.values
		res := RunFuzz(r.x.Prop, WordsToBytes(st))
		switch {
		case res.Panicked != nil:
			out.Viol = violf("C03:panic-escaped-fuzz", "stream %x: a panic escaped MakeFuzz: %v", st, res.Panicked)
		case r.breach != "":
			out.Viol = violf(contractKey(r.breach), "stream %x: %s", st, r.breach)
		case res.Status == "failed":
			out.Viol = violf("C03:internal-failure", "stream %x: the fuzz test failed inside Draw without a contract breach (internal assertion / runtime error)", st)
		case res.Status == "skipped":
			classes["stream-rejected"] = true
		case res.Status == "passed" && r.values == before:
			out.Viol = violf("C03:passed-without-value", "stream %x: the fuzz test passed but Draw never returned", st)
		default:
			classes["stream-accepted"] = true
		}
		if out.Viol != nil {
			return out
		}
		allz, allo := len(st) > 0, len(st) > 0
		for _, w := range st {
			if w != 0 {
				allz = false
			}
			if w != math.MaxUint64 {
				allo = false
			}
		}
		if allz {
			classes["stream-all-zero"] = true
		}
		if allo {
			classes["stream-all-ones"] = true
		}
	}

	d := cs.Spec.Depth()
	out.NonTrivial = r.values > 0 && (d >= 2 || cs.Spec.Mode != "" || cs.Spec.Min > 0 || cs.Spec.Max > 0)
	classes[fmt.Sprintf("depth-%d", min(d, 5))] = true
	classes["root-"+cs.Spec.K] = true
	if cs.Spec.HasKind("filter", "strmatch", "bytesmatch") || specHasDistinct(cs.Spec) {
		classes["has-rejection-node"] = true
	}
	if specHasExtreme(cs.Spec) {
		classes["extreme-bounds"] = true
	}
	if r.values == 0 {
		classes["no-value-at-all"] = true
	}
	for k := range classes {
		out.Classes = append(out.Classes, k)
	}
	return out
}

func specHasDistinct(s *GenSpec) bool {
	if (s.K == "slice" && s.Fn != "") || s.K == "map" || s.K == "mapvalues" {
		return true
	}
	for _, sub := range s.Sub {
		if specHasDistinct(sub) {
			return true
		}
	}
	return false
}

func specHasExtreme(s *GenSpec) bool {
	switch s.K {
	case "int":
		if s.Mode != "" {
			if intSigned(s.IK) {
				lo, hi := sBounds(s.IK)
				if s.SA == lo || s.SB == hi || s.SA == s.SB {
					return true
				}
			} else if s.UB == uMax(s.IK) || s.UA == s.UB {
				return true
			}
		}
	case "float":
		a, b := math.Float64frombits(s.UA), math.Float64frombits(s.UB)
		if s.Mode != "" && (math.IsInf(a, 0) || math.IsInf(b, 0) || a == b || math.Abs(a) < 1e-300 && a != 0 || math.Nextafter(a, b) == b) {
			return true
		}
	}
	for _, sub := range s.Sub {
		if specHasExtreme(sub) {
			return true
		}
	}
	return false
}
