//go:build linux && amd64

package vh

import (
	"encoding/json"
	"fmt"
	"os"
	"runtime"
	"syscall"

	"pgregory.net/rapid"
)

// The ptrace supervisor (C16): runs a child process and kills it immediately before its k-th
// file-system-affecting system call issued between two marker calls.

var fsCalls = map[uint64]string{
	1: "write", 3: "close", 2: "open", 257: "openat", 82: "rename", 264: "renameat", 316: "renameat2", 87: "unlink", 263: "unlinkat",
	83: "mkdir", 258: "mkdirat", 74: "fsync", 75: "fdatasync", 77: "ftruncate", 18: "pwrite64", 20: "writev", 84: "rmdir", 85: "creat",
	86: "link", 265: "linkat", 88: "symlink", 266: "symlinkat", 90: "chmod", 91: "fchmod", 268: "fchmodat", 76: "truncate", 285: "fallocate",
	326: "copy_file_range", 40: "sendfile", 275: "splice", 296: "pwritev", 328: "pwritev2", // what io.Copy between files turns into
}

const (
	markBegin = "/nonexistent-verif-dir/__VERIF_BEGIN"
	markEnd   = "/nonexistent-verif-dir/__VERIF_END"
)

// traceSamePID asks traceChild to start the child in a new PID namespace (set by C16 around the children of one case).
var traceSamePID, traceSamePIDUnusable bool

type traceResult struct {
	Count  int      // fs-affecting syscalls seen between the markers
	Killed bool     // the child was killed before syscall number k
	Name   string   // name of that syscall
	Calls  []string // names of all counted syscalls (k == 0 only)
	Err    error
}

// traceChild runs argv with env in dir under ptrace; k == 0 only counts.
func traceChild(k int, argv []string, env []string, dir string) traceResult {
	ch := make(chan traceResult, 1)
	go func() {
		runtime.LockOSThread() // all ptrace requests must come from the thread that attached
		defer runtime.UnlockOSThread()
		ch <- traceChildLocked(k, argv, env, dir)
	}()
	return <-ch
}

func traceChildLocked(k int, argv []string, env []string, dir string) (res traceResult) {
	devnull, _ := os.OpenFile(os.DevNull, os.O_RDWR, 0)
	defer devnull.Close()
	attr := &syscall.ProcAttr{
		Dir:   dir,
		Files: []uintptr{devnull.Fd(), devnull.Fd(), devnull.Fd()},
		Env:   env,
		Sys:   &syscall.SysProcAttr{Ptrace: true},
	}
	var pid int
	var err error
	if traceSamePID && !traceSamePIDUnusable {
		// a PID namespace of its own: the child is process 1 in it, like every other child started this way (a test
		// binary that is always "the" process of its container)
		attr.Sys.Cloneflags = syscall.CLONE_NEWPID
		if pid, err = syscall.ForkExec(argv[0], argv, attr); err != nil {
			traceSamePIDUnusable = true
			attr.Sys.Cloneflags = 0
		}
	}
	if attr.Sys.Cloneflags == 0 {
		pid, err = syscall.ForkExec(argv[0], argv, attr)
	}
	if err != nil {
		res.Err = fmt.Errorf("fork/exec under ptrace: %w", err)
		return
	}
	var ws syscall.WaitStatus
	if _, err = syscall.Wait4(pid, &ws, syscall.WALL, nil); err != nil {
		res.Err = fmt.Errorf("wait4: %w", err)
		return
	}
	opts := syscall.PTRACE_O_TRACESYSGOOD | syscall.PTRACE_O_TRACECLONE | syscall.PTRACE_O_TRACEFORK | syscall.PTRACE_O_TRACEVFORK | 0x100000 // EXITKILL
	if err := syscall.PtraceSetOptions(pid, opts); err != nil {
		_ = syscall.Kill(pid, syscall.SIGKILL)
		res.Err = fmt.Errorf("ptrace setoptions: %w", err)
		return
	}
	_ = syscall.PtraceSyscall(pid, 0)
	inSys := map[int]bool{}
	armed := false
	drain := func() {
		for {
			w, e := syscall.Wait4(-1, &ws, syscall.WALL, nil)
			if e != nil || (w == pid && (ws.Exited() || ws.Signaled())) {
				return
			}
		}
	}
	for {
		wpid, err := syscall.Wait4(-1, &ws, syscall.WALL, nil)
		if err != nil {
			return
		}
		if ws.Exited() || ws.Signaled() {
			if wpid == pid {
				return
			}
			continue
		}
		if !ws.Stopped() {
			continue
		}
		sig := ws.StopSignal()
		switch {
		case sig == syscall.SIGTRAP|0x80:
			inSys[wpid] = !inSys[wpid]
			if inSys[wpid] {
				var regs syscall.PtraceRegs
				if err := syscall.PtraceGetRegs(wpid, &regs); err == nil {
					nr := regs.Orig_rax
					if nr == 83 || nr == 258 {
						addr := regs.Rdi
						if nr == 258 {
							addr = regs.Rsi
						}
						buf := make([]byte, 48)
						n, _ := syscall.PtracePeekData(wpid, uintptr(addr), buf)
						s := string(buf[:n])
						if len(s) >= len(markBegin) && s[:len(markBegin)] == markBegin {
							armed = true
							_ = syscall.PtraceSyscall(wpid, 0)
							continue
						}
						if len(s) >= len(markEnd) && s[:len(markEnd)] == markEnd {
							armed = false
							_ = syscall.PtraceSyscall(wpid, 0)
							continue
						}
					}
					if name, ok := fsCalls[nr]; ok && armed {
						res.Count++
						if k == 0 {
							res.Calls = append(res.Calls, name)
						}
						if res.Count == k {
							_ = syscall.Kill(pid, syscall.SIGKILL)
							drain()
							res.Killed, res.Name = true, name
							return
						}
					}
				}
			}
			_ = syscall.PtraceSyscall(wpid, 0)
		case sig == syscall.SIGTRAP:
			_ = syscall.PtraceSyscall(wpid, 0) // clone/fork event
		case sig == syscall.SIGSTOP && wpid != pid && !inSys[wpid]:
			_ = syscall.PtraceSyscall(wpid, 0) // initial stop of a new thread
		default:
			_ = syscall.PtraceSyscall(wpid, int(sig))
		}
	}
}

// crashChild is the traced process: it brackets one failing rapid.Check with the two marker calls.
func crashChild() {
	var cs C16Case
	if err := json.Unmarshal([]byte(os.Getenv("VERIF_CASE")), &cs); err != nil {
		os.Exit(7)
	}
	x := NewInterp(cs.prog())
	applyCfg(cs.cfg())
	tb := NewFakeTB(string(cs.NameRaw))
	_ = syscall.Mkdir(markBegin, 0o700)
	func() {
		defer func() { _ = recover() }()
		rapid.Check(tb, x.Prop)
	}()
	_ = syscall.Mkdir(markEnd, 0o700)
	os.Exit(0)
}
