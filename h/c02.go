package vh

import (
	"fmt"
	"testing"

	"pgregory.net/rapid"
	"vh/drv"
)

// C02 - no falsification is lost: the matrix signal kind x callback context x position (x followed by Skip)
// is enumerated, and random programs are searched in addition.

type C02Case struct {
	Cell      *C02Cell   `json:"cell,omitempty"`
	Case      *CheckCase `json:"case"`
	MakeCheck bool       `json:"makecheck,omitempty"` // run through MakeCheck on a real *testing.T
}

type C02Cell struct {
	Kind     string `json:"kind"`
	Context  string `json:"context"`  // body action inv custom customretry cleanup ccleanup go
	Position string `json:"position"` // first later last afterskips step
	ThenSkip bool   `json:"thenskip,omitempty"`
	Seed     uint64 `json:"seed"`

	prepare bool // replayonce: build the always-failing variant that writes the fail file
}

var c02Contexts = []string{"body", "action", "inv", "custom", "custom2", "customretry", "cleanup", "ccleanup", "go", "recovered", "recoveredaction", "recoveredcustom", "bodycs", "customcs"}
var c02Positions = []string{"first", "later", "last", "afterskips", "step", "replayonce", "replayshort", "late"}

type c02 struct{}

func init() { register(c02{}) }

func (c02) ID() string       { return "C02" }
func (c02) NewCase() any     { return &C02Case{} }
func (c02) Cases(c *Ctx) int { return c.Pick(300, 8000) }

func wideInt() *GenSpec { return &GenSpec{K: "int", IK: "Int64"} }

// buildCell constructs the program of a matrix cell. lastVal is the value the wide draw takes in the last
// test case of the run (position "last"), found by a dry run.
func buildCell(cell *C02Cell, lastVal int64) (*Prog, CheckCfg) {
	cfg := CheckCfg{Name: "TestC02", Seed: cell.Seed, Checks: 60, Steps: 8, ShrinkNS: 2e7, NoFailFile: true}
	sig := []*Stmt{{Op: "sig", Kind: cell.Kind, Site: 1}}
	if cell.ThenSkip {
		sig = append(sig, &Stmt{Op: "skip", Kind: "Skip"})
	}
	var cond *Cond
	switch cell.Position {
	case "first":
		cond = &Cond{Op: "true"}
		cfg.Checks = 3
	case "later", "afterskips":
		cond = &Cond{Draw: 0, Op: "mod", M: 11, C: 3}
		cfg.Checks = 200
	case "last":
		cond = &Cond{Draw: 0, Op: "eq", C: lastVal}
		cfg.Checks = 12
	case "step":
		cond = &Cond{Draw: -1, Op: "mod", M: 5, C: 2} // the latest draw (the action's own)
		cfg.Checks = 100
	case "late":
		cond = &Cond{Draw: 0, Op: "mod", M: 3, C: 1}
		cfg.Checks = 40
	case "replayonce", "replayshort":
		// (replayshort: ... and after the signal it draws more than the file holds: the replay runs out of data)
		// the test case comes from a fail file and falsifies the property on its first execution only (the
		// reproduction run passes): still a falsification
		cond = &Cond{Op: "true"}
		cfg.Checks = 5
	default:
		cond = &Cond{Op: "never"}
	}
	p := &Prog{}
	p.Body = append(p.Body, &Stmt{Op: "draw", Label: "w", Gen: wideInt()})
	if cell.Position == "afterskips" {
		// roughly half of the test cases are skipped before anything else happens
		p.Body = append(p.Body, &Stmt{Op: "if", Cond: &Cond{Draw: 0, Op: "mod", M: 2, C: 0}, Body: []*Stmt{{Op: "skip", Kind: "SkipNow"}}})
	}
	guarded := func(body []*Stmt) *Stmt {
		if (cell.Position == "replayonce" || cell.Position == "replayshort") && !cell.prepare {
			return &Stmt{Op: "ifinv", N: 0, Body: body}
		}
		return &Stmt{Op: "if", Cond: cond, Body: body}
	}
	switch cell.Context {
	case "body":
		p.Body = append(p.Body, guarded(sig))
	case "action":
		p.Body = append(p.Body, &Stmt{Op: "repeat", HasInv: true, Actions: []*Action{
			{Name: "a0", Body: []*Stmt{{Op: "draw", Label: "x", Gen: wideInt()}, guarded(sig)}},
			{Name: "a1", Body: []*Stmt{{Op: "draw", Label: "y", Gen: &GenSpec{K: "bool"}}}},
		}})
	case "inv":
		p.Body = append(p.Body, &Stmt{Op: "repeat", HasInv: true, Inv: []*Stmt{guarded(sig)}, Actions: []*Action{
			{Name: "a0", Body: []*Stmt{{Op: "draw", Label: "x", Gen: wideInt()}}},
		}})
	case "custom":
		p.Body = append(p.Body, guarded([]*Stmt{{Op: "draw", Label: "c", Gen: &GenSpec{K: "custom", Body: append([]*Stmt{
			{Op: "draw", Label: "c0", Gen: wideInt()}}, sig...)}}}))
	case "custom2":
		// a Custom generator function that draws from another Custom generator, whose function signals: two inner Ts
		inner := &GenSpec{K: "custom", Body: append([]*Stmt{{Op: "draw", Label: "c0", Gen: wideInt()}}, sig...)}
		outer := &GenSpec{K: "custom", Body: []*Stmt{{Op: "draw", Label: "o0", Gen: wideInt()}, {Op: "draw", Label: "in", Gen: inner}, {Op: "draw", Label: "o1", Gen: &GenSpec{K: "bool"}}}}
		p.Body = append(p.Body, guarded([]*Stmt{{Op: "draw", Label: "c", Gen: outer}}))
	case "customretry":
		// the function skips (and is retried) for two thirds of its first draws, and signals in a later attempt
		p.Body = append(p.Body, guarded([]*Stmt{{Op: "draw", Label: "c", Gen: &GenSpec{K: "custom", Body: append([]*Stmt{
			{Op: "draw", Label: "c0", Gen: wideInt()},
			{Op: "if", Cond: &Cond{Draw: 0, Op: "nmod", M: 3, C: 1}, Body: []*Stmt{{Op: "skip", Kind: "Skipf"}}}}, sig...)}}}))
	case "recovered":
		p.Body = append(p.Body, guarded([]*Stmt{{Op: "recovered", Body: sig}}), &Stmt{Op: "draw", Label: "after", Gen: &GenSpec{K: "bool"}})
	case "recoveredaction":
		p.Body = append(p.Body, &Stmt{Op: "repeat", HasInv: true, Actions: []*Action{
			{Name: "a0", Body: []*Stmt{{Op: "draw", Label: "x", Gen: wideInt()}, guarded([]*Stmt{{Op: "recovered", Body: sig}})}},
			{Name: "a1", Body: []*Stmt{{Op: "draw", Label: "y", Gen: &GenSpec{K: "bool"}}}},
		}})
	case "recoveredcustom":
		p.Body = append(p.Body, guarded([]*Stmt{{Op: "draw", Label: "c", Gen: &GenSpec{K: "custom", Body: []*Stmt{
			{Op: "draw", Label: "c0", Gen: wideInt()}, {Op: "recovered", Body: sig}, {Op: "draw", Label: "c1", Gen: &GenSpec{K: "bool"}}}}}}))
	case "customcs":
		p.Body = append(p.Body, guarded([]*Stmt{{Op: "draw", Label: "c", Gen: &GenSpec{K: "custom", Body: append([]*Stmt{
			{Op: "draw", Label: "c0", Gen: wideInt()}, {Op: "cleanup", Body: []*Stmt{{Op: "skip", Kind: "Skip"}}}}, sig...)}}}))
	case "bodycs":
		p.Body = append(p.Body, guarded(append([]*Stmt{{Op: "cleanup", Body: []*Stmt{{Op: "skip", Kind: "Skip"}}}}, sig...)))
	case "cleanup":
		// thenSkip: the body registers the signalling cleanup and then skips the test case
		body := []*Stmt{{Op: "cleanup", Body: sig[:1]}}
		if cell.ThenSkip {
			body = append(body, &Stmt{Op: "skip", Kind: "Skipf"})
		}
		p.Body = append(p.Body, guarded(body))
	case "ccleanup":
		p.Body = append(p.Body, guarded([]*Stmt{{Op: "draw", Label: "c", Gen: &GenSpec{K: "custom", Body: []*Stmt{
			{Op: "draw", Label: "c0", Gen: wideInt()}, {Op: "cleanup", Body: sig[:1]}}}}}))
		if cell.ThenSkip {
			// the function registers the signalling cleanup and then rejects its own attempt
			cb := p.Body[len(p.Body)-1].Body[0].Gen
			cb.Body = append(cb.Body, &Stmt{Op: "skip", Kind: "Skip"})
		}
	case "go":
		if cell.Position == "late" {
			p.Body = append(p.Body, guarded([]*Stmt{{Op: "golate", Body: sig[:1]}}))
			break
		}
		p.Body = append(p.Body, guarded([]*Stmt{{Op: "go", Body: sig[:1]}}))
		if cell.ThenSkip {
			p.Body = append(p.Body, guarded([]*Stmt{{Op: "skip", Kind: "Skip"}}))
		}
	}
	if cell.Position == "replayshort" && !cell.prepare {
		p.Body = append(p.Body, &Stmt{Op: "draw", Label: "extra", Gen: wideInt()}, &Stmt{Op: "draw", Label: "extra2", Gen: wideInt()})
	}
	if cell.Position == "step" && cell.Context != "action" && cell.Context != "inv" {
		// "during a state-machine step": the context is entered from inside an action
		inner := p.Body[len(p.Body)-1]
		p.Body = p.Body[:len(p.Body)-1]
		if cell.Context == "go" && cell.ThenSkip {
			inner2 := inner
			inner = p.Body[len(p.Body)-1]
			p.Body = p.Body[:len(p.Body)-1]
			p.Body = append(p.Body, &Stmt{Op: "repeat", HasInv: true, Actions: []*Action{{Name: "a0", Body: []*Stmt{{Op: "draw", Label: "x", Gen: wideInt()}, inner, inner2}}}})
		} else {
			p.Body = append(p.Body, &Stmt{Op: "repeat", HasInv: true, Actions: []*Action{{Name: "a0", Body: []*Stmt{{Op: "draw", Label: "x", Gen: wideInt()}, inner}}}})
		}
	}
	return p, cfg
}

func cellValidPos(kind, context, position string, thenSkip bool) bool {
	if position == "late" {
		// a goroutine started by one test case signals on that test case's T while a later test case is running
		return context == "go" && sigClass(kind) == "nonfatal" && !thenSkip
	}
	if position == "replayonce" {
		return (context == "body" || context == "cleanup" || context == "action") && !thenSkip
	}
	if position == "replayshort" {
		return (context == "body" || context == "cleanup" || context == "go") && sigClass(kind) == "nonfatal" && !thenSkip
	}
	return cellValid(kind, context, thenSkip)
}

func cellValid(kind, context string, thenSkip bool) bool {
	nonfatal := sigClass(kind) == "nonfatal"
	switch context {
	case "recovered", "recoveredaction", "recoveredcustom":
		// Fatal / Fatalf / FailNow raised under a recover of the user's code, which swallows the panic that carries it
		return sigClass(kind) == "fatal" && !thenSkip
	case "customcs":
		// the same inside a Custom generator function: it registers a cleanup that skips, then fails
		return !thenSkip
	case "bodycs":
		// signalled in the body of a test case that has registered a cleanup which skips: the skip must not undo the
		// failure (whether it was signalled through T or is a panic on its way up)
		return !thenSkip
	}
	if context == "go" && !nonfatal {
		return false // fatal signals and panics on another goroutine kill the process by design
	}
	if thenSkip && (context == "cleanup" || context == "ccleanup") {
		return true // the skip happens in the body / the Custom function, after the cleanup was registered
	}
	if thenSkip && !nonfatal {
		return false // nothing runs after a fatal signal
	}
	if thenSkip && context == "inv" {
		return false // skipping from the invariant is not generated (DESIGN.md 3.2)
	}
	return true
}

func allCells() []*C02Cell {
	var out []*C02Cell
	for _, k := range allSigKinds {
		for _, ctx := range c02Contexts {
			for _, pos := range c02Positions {
				for _, ts := range []bool{false, true} {
					if cellValidPos(k, ctx, pos, ts) {
						out = append(out, &C02Cell{Kind: k, Context: ctx, Position: pos, ThenSkip: ts})
					}
				}
			}
		}
	}
	return out
}

// Loop enumerates the matrix (every cell x seeds) and then searches random programs.
func (p c02) Loop(c *Ctx) {
	cells := allCells()
	seedsPerCell := c.Pick(2, 20)
	n := 0
	for ci, cell := range cells {
		for s := 0; s < seedsPerCell; s++ {
			n++
			if n%c.Shards != c.Shard {
				continue
			}
			cl := *cell
			cl.Seed = shardSeed(c.Seed+uint64(s)*7919, ci) | 1
			cs := &C02Case{Cell: &cl, MakeCheck: s%4 == 3 && cl.Position != "replayonce" && cl.Position != "replayshort"}
			out := p.Run(c, cs)
			c.Stats.Add(cs, out)
			if out.Viol != nil {
				c.Report("C02", cs, out.Viol)
			}
		}
	}
	c.Stats.Extra["matrix_cells"] = len(cells)
	c.Stats.Exhaustive = false
	driveProperty(p, c)
}

func (c02) Gen(dt *drv.T, c *Ctx) any {
	cs := &CheckCase{}
	cs.Prog = GenProg(dt, progCfgFull(c))
	cs.Cfg = genCheckCfg(dt, "TestC02", 120)
	cs.Cfg.NoFailFile = true
	cs.Cfg.ShrinkNS = int64(pick(dt, "shrink", 0, 1e6, 2e7))
	return &C02Case{Case: cs, MakeCheck: chance(dt, "makecheck", 15)}
}

func (c02) Run(c *Ctx, csAny any) Outcome {
	cs := csAny.(*C02Case)
	out := Outcome{}
	dir := EnterCaseDir()
	defer LeaveCaseDir(dir)

	prog, cfg := (*Prog)(nil), CheckCfg{}
	cellName := "random"
	if cs.Cell != nil {
		var lastVal int64
		if cs.Cell.Position == "last" {
			// dry run: which value does the wide draw take in the last of the `checks` test cases?
			dry, dcfg := buildCell(&C02Cell{Kind: cs.Cell.Kind, Context: "body", Position: "never", Seed: cs.Cell.Seed}, 0)
			dcfg.Checks = 12
			dr := runProg(dcfg, dry)
			if len(dr.X.Log) == 12 && len(dr.X.Log[11].Draws) > 0 {
				lastVal = dr.X.Log[11].Draws[0].M
			}
		}
		if cs.Cell.Position == "replayonce" || cs.Cell.Position == "replayshort" {
			// first a run of the always-failing variant, which leaves a fail file for this test name
			prep := *cs.Cell
			prep.prepare = true
			pprog, pcfg := buildCell(&prep, 0)
			pcfg.NoFailFile = false
			pcfg.ShrinkNS = 0
			runProg(pcfg, pprog)
			if len(FailFiles()) != 1 {
				out.Classes = append(out.Classes, "replayonce-no-failfile")
				return out
			}
		}
		prog, cfg = buildCell(cs.Cell, lastVal)
		if cs.Cell.Position == "replayonce" || cs.Cell.Position == "replayshort" {
			cfg.Seed = cs.Cell.Seed + 17
		}
		cellName = fmt.Sprintf("%s/%s/%s/skip=%v", cs.Cell.Kind, cs.Cell.Context, cs.Cell.Position, cs.Cell.ThenSkip)
	} else {
		prog, cfg = cs.Case.Prog, cs.Case.Cfg
	}

	var failed bool
	var x *Interp
	var detail string
	if cs.MakeCheck {
		x = NewInterp(prog)
		applyCfg(cfg)
		res := Hosted(func(t *testing.T) { rapid.MakeCheck(x.Prop)(t) })
		resetFlags()
		x.Finish()
		failed = res.Status == "failed"
		if res.Panicked != nil {
			out.Viol = violf("C02:panic-escaped-check", "a panic escaped MakeCheck: %v", res.Panicked)
			return out
		}
		detail = "MakeCheck sub-test status " + res.Status
		out.Classes = append(out.Classes, "via-makecheck")
	} else {
		r := runProg(cfg, prog)
		x = r.X
		failed = r.Obs.Failed
		detail = fmt.Sprintf("report kind %q msg %q", r.Rep.Kind, r.Rep.Msg)
		if r.Obs.Escaped != nil {
			out.Viol = violf("C02:panic-escaped-check", "a panic escaped rapid.Check: %v", r.Obs.Escaped)
			return out
		}
		if r.Rep.Kind == "only" {
			out.Classes = append(out.Classes, "only-generated")
			if r.FirstBad < 0 {
				return out // failing for lack of valid cases is C09's business
			}
		}
	}
	firstBad := -1
	skippedOnly := true
	for i, inv := range x.Log {
		if inv.Falsified && firstBad < 0 {
			firstBad = i
		}
		if inv.End != "skip" && inv.End != "pass" && inv.End != "lib" {
			skippedOnly = false
		}
	}
	if firstBad >= 0 {
		out.NonTrivial = true
		fb := x.Log[firstBad]
		out.Classes = append(out.Classes, "falsified", "cell:"+cellName, "falsified-end-"+fb.End)
		if !failed {
			where, kind := "", ""
			for _, e := range fb.Events {
				if e.K == "sig" {
					where, kind = e.Where, e.Name
					break
				}
			}
			if fb.NVA {
				where, kind = "repeat", "no-valid-action"
			}
			out.Viol = violf(fmt.Sprintf("C02:lost:%s:%s:end-%s", sigClass(kind), where, fb.End),
				"invocation %d of %d falsified the property (%s in %s, ended %s) but the test was not marked failed (%s)", firstBad, len(x.Log), kind, where, fb.End, detail)
		}
		return out
	}
	out.Classes = append(out.Classes, "not-falsified")
	if cs.Cell != nil {
		out.Classes = append(out.Classes, "cell-not-reached:"+cellName)
	}
	if failed && skippedOnly {
		// nothing was falsified; only "only generated" may fail the test
		if cs.MakeCheck {
			return out // status only: the reason is not visible, C09 covers the budget
		}
		out.Viol = violf("C02:failed-without-falsification", "no test case falsified the property (skips and passes only) but the test failed: %s", detail)
	}
	return out
}
