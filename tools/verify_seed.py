#!/usr/bin/env python3
"""tools/verify_seed.py <seeded-dir> <property> [--needs "..."]: confirms a seeded change in a scratch copy of /repo:
builds, the repository's suite passes with it, its demonstration fails with it and passes without it; then runs the
owning check (quick) against it. Writes <seeded-dir>/meta.json. The scratch copy is removed afterwards."""
import json, os, re, shutil, subprocess, sys, time

VERIF = os.path.dirname(os.path.dirname(os.path.abspath(__file__)))
GOENV = dict(os.environ, GOFLAGS="-mod=mod", GOPROXY="off", GOSUMDB="off", GOTOOLCHAIN="local")


def sh(cmd, cwd, timeout=1800):
    p = subprocess.run(cmd, cwd=cwd, env=GOENV, stdout=subprocess.PIPE, stderr=subprocess.STDOUT, text=True, timeout=timeout)
    return p.returncode, p.stdout


def populate(scratch, base):
    """copy of /repo's working tree, or - for a change recorded against an earlier commit of /repo ("base" in its
    meta.json: a later fix: commit rewrote the lines it touches) - of that commit"""
    if base:
        os.makedirs(scratch, exist_ok=True)
        subprocess.run("git -C /repo archive %s | tar -x -C %s" % (base, scratch), shell=True, check=True)
    else:
        subprocess.run(["rsync", "-a", "--exclude", ".git", "--exclude", "_seed", "/repo/", scratch + "/"], check=True)


def main():
    d = os.path.abspath(sys.argv[1])
    prop = sys.argv[2]
    checks = prop.split(",")
    needs = ""
    if "--needs" in sys.argv:
        needs = sys.argv[sys.argv.index("--needs") + 1]
    scratch = "/tmp/vseed/%s-%d" % (os.path.basename(d), os.getpid())
    meta = dict(property=checks[0], checks=checks, needs=needs, ran=[])
    try:
        os.makedirs(os.path.dirname(scratch), exist_ok=True)
        base = None
        if os.path.exists(os.path.join(d, "meta.json")):
            base = json.load(open(os.path.join(d, "meta.json"))).get("base")
        populate(scratch, base)
        rc, out = sh(["patch", "-p1", "-s", "-i", os.path.join(d, "patch.diff")], scratch)
        meta["patch_applies"] = rc == 0
        if rc != 0:
            meta["error"] = out[-500:]
            return meta
        rc, out = sh(["go", "build", "./..."], scratch)
        meta["builds"] = rc == 0
        suite = []
        for i in range(2):
            rc, out = sh(["go", "test", "-vet=off", "-count=1", "./..."], scratch)
            suite.append(rc == 0)
        meta["suite_passes_with_change"] = all(suite)
        meta["ran"].append("go test -vet=off -count=1 ./...  (x2, with the change): %s" % suite)
        demo = os.path.join(d, "demo_test.go")
        shutil.copy(demo, os.path.join(scratch, "zz_seed_demo_test.go"))
        race = ["-race"] if checks[0] in ("C14", "C15") else []
        rc, out = sh(["go", "test"] + race + ["-vet=off", "-count=1", "-run", "Seed|Demo|seed|demo", "."], scratch)
        meta["demo_fails_with_change"] = rc != 0
        meta["demo_output_with_change"] = out[-1200:]
        sh(["patch", "-p1", "-s", "-R", "-i", os.path.join(d, "patch.diff")], scratch)
        rc, out = sh(["go", "test"] + race + ["-vet=off", "-count=1", "-run", "Seed|Demo|seed|demo", "."], scratch)
        meta["demo_passes_without_change"] = rc == 0
        meta["ran"].append("go test -run 'Seed|Demo' . with the change: exit != 0 -> %s; without: exit 0 -> %s" % (meta["demo_fails_with_change"], meta["demo_passes_without_change"]))
        os.remove(os.path.join(scratch, "zz_seed_demo_test.go"))
        sh(["patch", "-p1", "-s", "-i", os.path.join(d, "patch.diff")], scratch)
        meta["checks_result"] = {}
        for c in checks:
            t0 = time.time()
            env = dict(os.environ, VERIF_REPO=scratch)
            p = subprocess.run([os.path.join(VERIF, "check"), c, "quick"], cwd=VERIF, env=env, stdout=subprocess.PIPE, stderr=subprocess.STDOUT, text=True)
            keys = sorted(set(re.findall(r"key=(\S+)", p.stdout)))
            meta["checks_result"][c] = dict(exit=p.returncode, keys=keys, secs=round(time.time() - t0, 1))
            meta["ran"].append("VERIF_REPO=<scratch copy with the change> ./check %s quick -> exit %d %s" % (c, p.returncode, keys))
        return meta
    finally:
        shutil.rmtree(scratch, ignore_errors=True)
        old = {}
        mp = os.path.join(d, "meta.json")
        if os.path.exists(mp):
            old = json.load(open(mp))
        if not meta.get("needs"):
            meta.pop("needs", None)  # keep what is recorded
        old.update(meta)
        json.dump(old, open(mp, "w"), indent=1)
        print(json.dumps({k: v for k, v in old.items() if k not in ("demo_output_with_change", "ran")}, indent=1))


if __name__ == "__main__":
    main()
