package vh

import (
	"fmt"
	"os"
	"path/filepath"
	"strconv"
	"strings"
	"unicode"
	"unicode/utf8"

	"vh/drv"
)

// C06 - a failure is persisted and automatically replayed first on the next run.

type C06Case struct {
	Case     *CheckCase `json:"case"`
	NameRaw  []byte     `json:"name_raw"`       // TB name (arbitrary bytes)
	Vary     bool       `json:"vary,omitempty"` // the failure message differs from execution to execution
	ViaFlag  bool       `json:"via_flag,omitempty"`
	MovedDir string     `json:"moved_dir,omitempty"` // via flag: the file was copied into a directory of this name first (a CI artifact directory, say)
	MovedAbs bool       `json:"moved_abs,omitempty"` // ... and is named by its absolute path
	Renamed  string     `json:"renamed,omitempty"`   // via flag: the file was copied to this name first (attached to a bug report, say); relative path
	LongLine int        `json:"longline,omitempty"`  // longest output line requested (bytes)
	Stale    int        `json:"stale,omitempty"`     // fail files of earlier failures (all-zero words of various lengths) already present
}

type c06 struct{}

func init() { register(c06{}) }

func (c06) ID() string       { return "C06" }
func (c06) NewCase() any     { return &C06Case{} }
func (c06) Cases(c *Ctx) int { return c.Pick(300, 5000) }

var namePool = []string{
	"", "TestFoo", "Test/sub", "Test/sub/#01", "..", ".", "../..", "a b", "CON", "con", "NUL", "COM1", "LPT¹", "aux.txt", "Ünï©ødé_テスト", "тест/проверка",
	"x\x00y", "bad\xffutf8", "*?[a-z]", "[", "\\", "name-with-dash", "name_with_underscore", "name.fail", "Test/a*b", "Test{1,2}", "~", "#hash", " lead", "trail ", "名字/子测试/#02",
}

func genName(dt *drv.T) []byte {
	switch pick(dt, "namehow", "pool", "pool", "runes", "bytes", "long") {
	case "pool":
		return []byte(pick(dt, "name", namePool...))
	case "runes":
		rs := drv.SliceOfN(drv.SampledFrom([]rune{'a', 'Z', '0', '/', '\\', '_', '-', '.', ' ', '*', '?', '[', ']', '#', ':', '|', '"', '<', '>', 'é', '世', '‮', '́', 'ǅ', '\t', '\n'}), 0, 30).Draw(dt, "namerunes")
		return []byte(string(rs))
	case "bytes":
		return drv.SliceOfN(drv.Byte(), 0, 40).Draw(dt, "namebytes")
	}
	n := drv.IntRange(100, 200).Draw(dt, "namelen")
	return []byte(strings.Repeat(pick(dt, "longunit", "a", "ab/", "é", "_"), n)[:n])
}

var outputPool = [][]byte{
	[]byte("plain"), []byte("line1\nline2"), []byte("\n"), []byte("\n\n\n"), []byte("\r\n"), []byte("# looks like a comment"), []byte("v0.4.8#123"), []byte("v0.4.8#123\n0x5\n0x7"),
	[]byte("0xdeadbeef"), []byte("x\nv0.4.8#123\n0x5"), []byte("first\n0x1\n0x2"), []byte("a\n\nb\n  \nc"), []byte("q\nnot a number"), []byte("\x00\x01\x02\xff\xfe"), []byte("#"), []byte(" # "), []byte("\t"), []byte("ends with newline\n"), []byte("\r"), []byte("a\rb"), []byte("é世  "), []byte("\xc3\x28"),
}

func (c06) Gen(dt *drv.T, c *Ctx) any {
	cs := &C06Case{Case: &CheckCase{}}
	cs.NameRaw = genName(dt)
	cs.ViaFlag = chance(dt, "viaflag", 30)
	if cs.ViaFlag && drv.Bool().Draw(dt, "renamed") {
		cs.Renamed = pick(dt, "newname", "repro.fail", "issue-1234 repro.fail", "TestOther-20240101000000-1.fail", "failing-case.txt", "x")
	}
	if cs.ViaFlag && chance(dt, "moved", 50) {
		// directory names that mean something to a shell or to a glob pattern mean nothing to -rapid.failfile
		cs.MovedDir = pick(dt, "moveddir", "artifacts [linux-amd64]", "run[1", "logs]", "out*", "what?", "with space", "{a,b}", "b\\ackslash", "-dash", "..dots", "ünï-目录", "a[b]c*d?e", "[!x]", "~tilde", "$HOME", "100%")
		cs.MovedAbs = drv.Bool().Draw(dt, "movedabs")
	}
	if chance(dt, "stale", 30) {
		cs.Stale = drv.IntRange(1, 3).Draw(dt, "nstale")
	}
	p := &Prog{}
	shape := pick(dt, "shape", "normal", "normal", "nodraw", "longstream", "hugedraw")
	label := 0
	switch shape {
	case "nodraw":
		// fails without drawing: the bitstream is empty
	case "longstream":
		n := drv.IntRange(500, c.Pick(1500, 3400)).Draw(dt, "nlong")
		p.Body = append(p.Body, &Stmt{Op: "draw", Label: "big", Gen: &GenSpec{K: "slice", Min: n, Max: n, Sub: []*GenSpec{{K: "int", IK: "Uint64"}}}})
	case "hugedraw":
		// one "[rapid] draw" line far beyond 64 KiB
		n := drv.IntRange(2600, 5000).Draw(dt, "nhuge")
		p.Body = append(p.Body, &Stmt{Op: "draw", Label: "huge", Gen: &GenSpec{K: "slice", Min: n, Max: n, Sub: []*GenSpec{{K: "int", IK: "Int64", Mode: "min", SA: 1 << 60}}}})
		cs.LongLine = n * 20
	default:
		nd := drv.IntRange(1, 3).Draw(dt, "ndraws")
		for i := 0; i < nd; i++ {
			p.Body = append(p.Body, progDraw(dt, ProgCfg{Gen: GenCfg{Depth: 1, SmallInts: true, RejectHeavy: true}, Labels: true}, &label))
		}
	}
	nl := drv.IntRange(0, 3).Draw(dt, "nlogs")
	for i := 0; i < nl; i++ {
		st := &Stmt{Op: "log", Kind: pick(dt, "logkind", "Logf", "Log")}
		switch pick(dt, "loghow", "pool", "pool", "bytes", "longline", "longline", "manylines") {
		case "pool":
			st.Raw = pick(dt, "logtext", outputPool...)
		case "bytes":
			st.Raw = drv.SliceOfN(drv.Byte(), 0, 60).Draw(dt, "logbytes")
		case "longline":
			unit := pick(dt, "unit", "x", "ab ", "é", "# ", "0x1 ")
			n := pick(dt, "linelen", 100, 4095, 4096, 4097, 65533, 65534, 65535, 65536, 65537, 70000, 131072, 200000)
			n += drv.IntRange(-40, 40).Draw(dt, "linejitter")
			st.Raw, st.Rep = []byte(unit), n/len(unit)+1
			if n > cs.LongLine {
				cs.LongLine = n
			}
		case "manylines":
			st.Raw, st.Rep = []byte("line of output\n"), drv.IntRange(2, 3000).Draw(dt, "nlines")
		}
		p.Body = append(p.Body, st)
	}
	p.Body = append(p.Body, genSig(dt, allSigKinds))
	if chance(dt, "varymsg", 15) {
		// the failure message is not the same text in two executions of the same test case (it names a sequence
		// number, an address, a duration): the failure is the same failure and has to be persisted like any other
		p.Body[len(p.Body)-1].Vary = true
		cs.Vary = true
	}
	cs.Case.Prog = p
	cs.Case.Cfg = CheckCfg{Name: string(cs.NameRaw), Seed: drv.Uint64Range(1, 1<<62).Draw(dt, "seed"), Checks: drv.IntRange(1, 5).Draw(dt, "checks"), ShrinkNS: 0}
	if shape == "normal" || shape == "nodraw" {
		cs.Case.Cfg.ShrinkNS = pick(dt, "shrink", int64(0), 5e6, 2e8)
	}
	return cs
}

func needsSanitising(name string) bool {
	if name == "" || !utf8.ValidString(name) {
		return true
	}
	for _, r := range name {
		if !(unicode.IsLetter(r) || unicode.IsDigit(r) || r == '-' || r == '_') {
			return true
		}
	}
	up := strings.ToUpper(name)
	for _, res := range []string{"CON", "PRN", "AUX", "NUL", "COM1", "LPT1"} {
		if up == res {
			return true
		}
	}
	return false
}

func (c06) Run(c *Ctx, csAny any) Outcome {
	cs := csAny.(*C06Case)
	out := Outcome{}
	dir := EnterCaseDir()
	defer LeaveCaseDir(dir)
	cfg := cs.Case.Cfg
	cfg.Name = string(cs.NameRaw)
	prog := cs.Case.Prog

	// fail files left by earlier failures of this test may be present already
	stale := map[string]bool{}
	if cs.Stale > 0 {
		if base, version, ok := subjectFailFile(cfg.Name); ok {
			for i := 0; i < cs.Stale; i++ {
				p := strings.TrimSuffix(base, ".fail") + fmt.Sprintf("-0stale%d.fail", i)
				writeFailFile(p, version, 11, make([]uint64, 2+7*i), "left by an earlier failure")
				stale[p] = true
			}
			out.Classes = append(out.Classes, "stale-files-present")
		}
	}
	r1 := runProg(cfg, prog)
	if r1.Rep.FailFile != "" && stale[r1.Rep.FailFile] {
		out.Classes = append(out.Classes, "stale-file-reproduces-by-chance")
		return out // the run failed from a pre-existing file: nothing new is persisted, by design
	}
	if r1.Obs.Escaped != nil {
		out.Viol = violf("C06:panic-escaped-check", "a panic escaped rapid.Check: %v", r1.Obs.Escaped)
		return out
	}
	if r1.Rep.Kind != "failed" && r1.Rep.Kind != "panic" {
		out.Classes = append(out.Classes, "run1-did-not-fail")
		return out
	}
	words1len := -1
	var files []string
	for _, f := range FailFiles() {
		if !stale[f] {
			files = append(files, f)
		}
	}
	if len(files) != 1 {
		reason := ""
		for _, m := range r1.Obs.Msgs {
			if strings.Contains(m.Text, "fail file") {
				reason = firstLine(m.Text)
			}
		}
		out.Viol = violf("C06:not-persisted", "name %q: %d fail files below testdata/rapid after a failing Check (%v) %s", cfg.Name, len(files), AllFiles(), reason)
		return out
	}
	if v := oracleFailFileReplaysPath(r1, prog, files[0]); v != nil {
		out.Viol = prefixKey("C06", v)
		return out
	}
	if _, _, w, err := ParseFailFile(files[0]); err == nil {
		words1len = len(w)
	}
	abs, _ := filepath.Abs(files[0])
	if r1.Rep.FailFile == "" {
		out.Viol = violf("C06:file-not-named", "the failure report does not name the fail file: %q", r1.Rep.Repro)
		return out
	}
	want := r1.Last

	// second run: fresh TB of the same name, no seed
	cfg2 := cfg
	cfg2.Seed = 0
	cfg2.Checks = 3
	if cs.ViaFlag {
		other := filepath.Join(dir, "elsewhere")
		_ = os.MkdirAll(other, 0o775)
		_ = os.Chdir(other)
		cfg2.FailFile = abs
		out.Classes = append(out.Classes, "via-flag")
		if cs.Renamed != "" || cs.MovedDir != "" {
			target := cs.Renamed
			if target == "" {
				target = filepath.Base(abs)
			}
			if cs.MovedDir != "" {
				if os.MkdirAll(cs.MovedDir, 0o775) == nil {
					target = filepath.Join(cs.MovedDir, target)
				}
			}
			if b, err := os.ReadFile(abs); err == nil && os.WriteFile(target, b, 0o664) == nil {
				cfg2.FailFile = target // relative to the working directory
				if cs.MovedAbs {
					if a, err := filepath.Abs(target); err == nil {
						cfg2.FailFile = a
					}
				}
				if cs.Renamed != "" {
					out.Classes = append(out.Classes, "via-flag-renamed-copy")
				}
				if cs.MovedDir != "" && strings.HasPrefix(target, cs.MovedDir) {
					out.Classes = append(out.Classes, "via-flag-copy-in-a-directory-with-special-characters")
				}
			}
		}
	} else {
		out.Classes = append(out.Classes, "auto-discovery")
	}
	r2 := runProg(cfg2, prog)
	if cs.ViaFlag {
		_ = os.Chdir(dir)
	}
	if cs.Vary {
		out.Classes = append(out.Classes, "failure-message-differs-between-executions")
	}
	name := cfg.Name
	out.NonTrivial = needsSanitising(name) || cs.LongLine >= 4096 || words1len == 0 || words1len > 1000
	if needsSanitising(name) {
		out.Classes = append(out.Classes, "name-needs-sanitising")
	}
	if cs.LongLine >= 65534 {
		out.Classes = append(out.Classes, "line>=65534")
	} else if cs.LongLine >= 4096 {
		out.Classes = append(out.Classes, "line>=4096")
	}
	if words1len == 0 {
		out.Classes = append(out.Classes, "empty-bitstream")
	}
	if words1len > 1000 {
		out.Classes = append(out.Classes, "bitstream>1000-words")
	}
	if r2.Obs.Escaped != nil {
		out.Viol = violf("C06:panic-escaped-check", "second run: a panic escaped rapid.Check: %v", r2.Obs.Escaped)
		return out
	}
	ignored := ""
	for _, m := range r2.Obs.Msgs {
		aboutStale := false
		for sp := range stale {
			if strings.Contains(m.Text, sp) || strings.Contains(m.Text, strconv.Quote(sp)) {
				aboutStale = true
			}
		}
		if aboutStale {
			continue // a stale file that passes or is invalid now is expected to be reported as such
		}
		if strings.Contains(m.Text, "ignoring fail file") || strings.Contains(m.Text, "no longer valid") || strings.Contains(m.Text, "no longer reproduces") {
			ignored = firstLine(m.Text)
			if len(ignored) > 300 {
				ignored = ignored[:300]
			}
		}
	}
	if ignored != "" {
		key := "C06:persisted-file-ignored"
		if strings.Contains(ignored, "token too long") {
			key = "C06:persisted-file-ignored:token-too-long"
		}
		out.Viol = violf(key, "name %q, longest output line ~%d bytes: the next run ignored the file it had written: %s", name, cs.LongLine, ignored)
		return out
	}
	first := 0 // the stale files (now passing or invalid) are replayed before it, one invocation each
	if !cs.ViaFlag {
		for first < len(stale) && first < len(r2.X.Log) && !r2.X.Log[first].Falsified {
			first++
		}
	}
	if len(r2.X.Log) <= first || !r2.X.Log[first].Same(want) {
		got := "<no invocation>"
		if len(r2.X.Log) > first {
			got = r2.X.Log[first].Outcome()
		}
		out.Viol = violf("C06:not-replayed-first", "name %q: the first test case of the next run is [%s], the persisted one was [%s]", name, got, want.Outcome())
		return out
	}
	if (r2.Rep.Kind != "failed" && r2.Rep.Kind != "panic") || r2.Rep.After != 0 {
		out.Viol = violf("C06:not-failed-after-0", "name %q: the next run reports %q after %d tests", name, r2.Rep.Kind, r2.Rep.After)
		return out
	}
	if stripVary(r2.Rep.Msg) != stripVary(r1.Rep.Msg) {
		out.Viol = violf("C06:other-failure", "first run failed with %q, the replay with %q", r1.Rep.Msg, r2.Rep.Msg)
		return out
	}
	if got, _ := filepath.Abs(r2.Rep.FailFile); !cs.ViaFlag && got != abs {
		out.Viol = violf("C06:file-not-named", "the replay names fail file %q, the persisted file is %q", r2.Rep.FailFile, files[0])
		return out
	}
	var after []string
	for _, f := range FailFiles() {
		if !stale[f] {
			after = append(after, f)
		}
	}
	if len(after) != 1 || after[0] != files[0] {
		out.Viol = violf("C06:extra-file-written", "files after the replay run: %v (before: %v)", after, files)
		return out
	}
	if !r2.Last.Same(want) {
		out.Viol = violf("C06:replay-output-differs", "the replay presents [%s], the persisted test case was [%s]", r2.Last.Outcome(), want.Outcome())
		return out
	}
	_ = fmt.Sprint
	return out
}
