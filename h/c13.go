package vh

import (
	"bytes"
	"encoding/binary"
	"fmt"
	"path/filepath"
	"sync"
	"testing"
	"time"

	"pgregory.net/rapid"

	"vh/drv"
)

// C13 - MakeFuzz is total and faithful on arbitrary bytes.

type C13Case struct {
	Prog    *Prog      `json:"prog,omitempty"`
	NBools  int        `json:"nbools,omitempty"` // anchor program: n Bool draws
	Steps   int        `json:"steps,omitempty"`
	Input   []byte     `json:"input"`
	Derive  []Mutation `json:"derive,omitempty"`  // input is derived from a recorded successful stream instead
	TailLen int        `json:"taillen,omitempty"` // cut the derived input to a length that is not a multiple of 8
	Extra   []byte     `json:"extra,omitempty"`   // bytes appended for the "unconsumed bytes" clause
	Seed    uint64     `json:"seed,omitempty"`
}

type c13 struct{}

func init() { register(c13{}) }

func (c13) ID() string               { return "C13" }
func (c13) NewCase() any             { return &C13Case{} }
func (c13) Cases(c *Ctx) int         { return c.Pick(3000, 60000) }
func (c13) HangLimit() time.Duration { return 120 * time.Second }

func genInput(dt *drv.T) []byte {
	words := genStream(dt)
	b := WordsToBytes(words)
	switch pick(dt, "inputlen", "words", "words", "tail", "tail", "long", "empty") {
	case "tail":
		cut := drv.IntRange(0, 7).Draw(dt, "tailcut")
		if len(b) >= cut {
			b = b[:len(b)-cut]
		}
	case "long":
		n := drv.IntRange(65, 128).Draw(dt, "longwords")
		for len(b) < 8*n {
			b = append(b, WordsToBytes([]uint64{genHostileWord(dt)})...)
		}
	case "empty":
		b = nil
	}
	return b
}

func (c13) Gen(dt *drv.T, c *Ctx) any {
	cs := &C13Case{Steps: pick(dt, "steps", 1, 3, 10, 30)}
	if chance(dt, "huge", 1) && chance(dt, "huge2", 12) {
		// an input of well over half a megabyte that the property consumes to the end: the recording of a run that drew
		// a slice of 35,000-45,000 64-bit integers
		n := 35000 + 1000*drv.IntRange(0, 10).Draw(dt, "hugen")
		cs.Prog = &Prog{Body: []*Stmt{{Op: "draw", Label: "big", Gen: &GenSpec{K: "slice", Min: n, Max: n, Sub: []*GenSpec{{K: "int", IK: "Uint64"}}}}, {Op: "draw", Label: "last", Gen: &GenSpec{K: "bool"}}}}
		cs.Seed = drv.Uint64Range(1, 1<<62).Draw(dt, "seed")
		cs.Extra = []byte{1, 2, 3}
		return cs
	}
	if chance(dt, "anchor", 10) {
		cs.NBools = drv.IntRange(1, 40).Draw(dt, "nbools")
	} else {
		cs.Prog = GenProg(dt, progCfgFull(c))
	}
	if chance(dt, "derived", 50) {
		cs.Seed = drv.Uint64Range(1, 1<<62).Draw(dt, "seed")
		nm := drv.IntRange(0, 3).Draw(dt, "nmut")
		for i := 0; i < nm; i++ {
			m := Mutation{Op: pick(dt, "mop", "trunc", "set", "set", "append"), Pos: drv.IntRange(0, 40).Draw(dt, "mpos")}
			if m.Op != "trunc" {
				m.W = genHostileWord(dt)
			}
			cs.Derive = append(cs.Derive, m)
		}
		cs.TailLen = drv.IntRange(0, 7).Draw(dt, "taillen")
	} else {
		cs.Input = genInput(dt)
	}
	cs.Extra = drv.SliceOfN(drv.Byte(), 1, 24).Draw(dt, "extra")
	return cs
}

func boolProg(n int) *Prog {
	p := &Prog{}
	for i := 0; i < n; i++ {
		p.Body = append(p.Body, &Stmt{Op: "draw", Label: fmt.Sprintf("b%d", i), Gen: &GenSpec{K: "bool"}})
	}
	return p
}

func expectedStatus(inv *Invocation) string {
	switch {
	case inv.Falsified:
		return "failed"
	case inv.End == "skip" || inv.End == "lib":
		return "skipped"
	}
	return "passed"
}

type fuzzRun struct {
	res HostRes
	inv *Invocation
	n   int
}

func fuzzOnce(cfg CheckCfg, prog *Prog, input []byte) fuzzRun {
	x := NewInterp(prog)
	res := RunFuzzCfg(cfg, x.Prop, input)
	x.Finish()
	fr := fuzzRun{res: res, n: len(x.Log)}
	if len(x.Log) > 0 {
		fr.inv = x.Log[0]
	}
	return fr
}

func (c13) Run(c *Ctx, csAny any) Outcome {
	cs := csAny.(*C13Case)
	out := Outcome{}
	dir := EnterCaseDir()
	defer LeaveCaseDir(dir)
	prog := cs.Prog
	if prog == nil {
		prog = boolProg(cs.NBools)
	}
	cfg := CheckCfg{Name: "TestC13", Checks: 1, Steps: cs.Steps, ShrinkNS: 0}
	input := cs.Input

	if cs.Seed != 0 {
		// a known-good input: the recording of a PRNG run that ends in a failure, from the fail file
		failing := &Prog{Body: append(append([]*Stmt{}, prog.Body...), &Stmt{Op: "sig", Kind: "Fatalf", Site: 3})}
		rc := cfg
		rc.Seed, rc.Checks = cs.Seed, 30
		runProg(rc, failing)
		words, ok := failFileWords()
		for _, f := range FailFiles() {
			_ = removeFile(f)
		}
		if !ok {
			out.Classes = append(out.Classes, "no-recording")
			return out
		}
		for _, m := range cs.Derive {
			switch m.Op {
			case "trunc":
				if len(words) > 0 {
					words = words[:m.Pos%len(words)]
				}
			case "set":
				if len(words) > 0 {
					words[m.Pos%len(words)] = m.W
				}
			case "append":
				words = append(words, m.W)
			}
		}
		input = WordsToBytes(words)
		if cs.TailLen > 0 && len(input) >= 8 {
			input = input[:len(input)-8+cs.TailLen]
		}
		out.Classes = append(out.Classes, "derived-input")
		if len(input) > 1<<19 {
			out.Classes = append(out.Classes, "input>512KiB")
		}
	}

	a := fuzzOnce(cfg, prog, input)
	if a.res.Panicked != nil {
		out.Viol = violf("C13:panic-escaped", "input %x: a panic escaped the fuzz function: %v", input, a.res.Panicked)
		return out
	}
	if a.res.Clobbered != "" {
		// a later call on a longer slice of the same array would see other bytes: "appending bytes never changes the outcome"
		out.Viol = violf("C13:caller-bytes-modified", "%s", a.res.Clobbered)
		return out
	}
	if a.n != 1 {
		out.Viol = violf("C13:invocation-count", "input %x: the property was invoked %d times", input, a.n)
		return out
	}
	want := expectedStatus(a.inv)
	out.Classes = append(out.Classes, "status-"+a.res.Status, fmt.Sprintf("len-mod8-%d", len(input)%8))
	out.NonTrivial = len(a.inv.All) > 0
	if a.res.Status != want {
		out.Viol = violf(fmt.Sprintf("C13:status:%s-for-%s", a.res.Status, a.inv.End), "input %x: the test case ended %q (falsified=%v) but the fuzz test %s", input, a.inv.End, a.inv.Falsified, a.res.Status)
		return out
	}

	// anchor: Bool draws receive bit 0 of the little-endian words, a short tail zero-padded
	if cs.NBools > 0 {
		padded := append(append([]byte{}, input...), make([]byte, 8)...)
		for i, d := range a.inv.All {
			w := binary.LittleEndian.Uint64(padded[8*i:])
			if wantB := w&1 == 1; d.Val != wantB {
				out.Viol = violf("C13:anchor", "input %x: Bool draw %d is %v but word %d is %#x", input, i, d.Val, i, w)
				return out
			}
		}
		nwords := (len(input) + 7) / 8
		if wantDraws := min(cs.NBools, nwords); len(a.inv.All) != wantDraws {
			out.Viol = violf("C13:anchor", "input of %d words, %d Bool draws: %d draws succeeded, want %d", nwords, cs.NBools, len(a.inv.All), wantDraws)
			return out
		}
		out.Classes = append(out.Classes, "anchor")
	}

	same := func(what string, in2 []byte) *Violation {
		b := fuzzOnce(cfg, prog, in2)
		if b.res.Panicked != nil {
			return violf("C13:panic-escaped", "input %x: a panic escaped the fuzz function: %v", in2, b.res.Panicked)
		}
		if b.n != 1 || !b.inv.Same(a.inv) || b.res.Status != a.res.Status {
			return violf("C13:"+what, "%s: input %x gave [%s] (%s), input %x gave [%s] (%s)", what, input, a.inv.Outcome(), a.res.Status, in2, b.inv.Outcome(), b.res.Status)
		}
		return nil
	}
	if v := same("not-deterministic", input); v != nil {
		out.Viol = v
		return out
	}
	if len(input)%8 != 0 {
		out.Classes = append(out.Classes, "short-tail")
		padded := append(append([]byte{}, input...), make([]byte, 8-len(input)%8)...)
		if v := same("tail-not-zero-padded", padded); v != nil {
			out.Viol = v
			return out
		}
	}
	if !a.inv.LibAbort && len(input)%8 == 0 {
		if v := same("appended-bytes-change-outcome", append(append([]byte{}, input...), cs.Extra...)); v != nil {
			out.Viol = v
			return out
		}
		out.Classes = append(out.Classes, "append-checked")
	}

	// differential: the same words as a fail file, replayed by Check
	base, version, ok := subjectFailFile(cfg.Name)
	if ok {
		padded := append(append([]byte{}, input...), make([]byte, (8-len(input)%8)%8)...)
		words := make([]uint64, len(padded)/8)
		for i := range words {
			words[i] = binary.LittleEndian.Uint64(padded[8*i:])
		}
		path := filepath.Join(filepath.Dir(base), "c13-explicit.fail")
		writeFailFile(path, version, 1, words, "C13 differential")
		fc := cfg
		fc.FailFile, fc.Seed, fc.NoFailFile, fc.Checks = path, 12345, true, 1
		r := runProg(fc, prog)
		if r.Obs.Escaped != nil {
			out.Viol = violf("C13:panic-escaped", "words %x as a fail file: a panic escaped Check: %v", words, r.Obs.Escaped)
			return out
		}
		if len(r.X.Log) == 0 || !r.X.Log[0].Same(a.inv) {
			got := "<none>"
			if len(r.X.Log) > 0 {
				got = r.X.Log[0].Outcome()
			}
			out.Viol = violf("C13:differs-from-failfile-replay", "words %x: MakeFuzz gave [%s], replay as a fail file gave [%s]", words, a.inv.Outcome(), got)
			return out
		}
		if (a.res.Status == "failed") != (r.Rep.Kind == "failed" || r.Rep.Kind == "panic") && a.res.Status == "failed" {
			out.Viol = violf("C13:differs-from-failfile-replay", "words %x: the fuzz test failed but the fail file replay reported %q", words, r.Rep.Kind)
			return out
		}
		out.Classes = append(out.Classes, "failfile-differential")
	}
	// one function value returned by MakeFuzz, called from two sub-tests that overlap in time: each call has to see
	// exactly what it sees when it runs alone
	if len(input) >= 16 && len(cs.Extra) > 0 {
		other := append(append([]byte{}, cs.Extra...), input[:len(input)/2]...)
		if v := sharedFuzzFn(input, other); v != nil {
			out.Viol = v
			return out
		}
		out.Classes = append(out.Classes, "same-function-concurrently")
	}
	_ = bytes.Equal
	return out
}

// sharedFuzzFn calls ONE function returned by MakeFuzz with two inputs: first one after the other (reference), then
// from two sub-tests that meet at a barrier after their first draw. Calls are told apart by the sub-test name.
func sharedFuzzFn(a, b []byte) *Violation {
	var mu sync.Mutex
	draws := map[string][]uint64{}
	var arrive chan struct{}
	var both chan struct{}
	g := rapid.Uint64()
	f := rapid.MakeFuzz(func(t *rapid.T) {
		name := t.Name()
		rec := func(v uint64) {
			mu.Lock()
			draws[name] = append(draws[name], v)
			mu.Unlock()
		}
		rec(g.Draw(t, "w"))
		if arrive != nil {
			arrive <- struct{}{}
			select {
			case <-both:
			case <-time.After(3 * time.Second):
			}
		}
		for i := 0; i < 6; i++ {
			rec(g.Draw(t, "w"))
		}
	})
	call := func(in []byte, out *[]uint64) func(t *testing.T) {
		return func(t *testing.T) {
			name := t.Name()
			defer func() {
				mu.Lock()
				*out = append([]uint64{}, draws[name]...)
				mu.Unlock()
			}()
			f(t, in)
		}
	}
	var soloA, soloB, parA, parB []uint64
	ra := Hosted(call(a, &soloA))
	rb := Hosted(call(b, &soloB))
	arrive, both = make(chan struct{}, 2), make(chan struct{})
	go func() {
		n := 0
		timeout := time.After(3 * time.Second)
		for n < 2 {
			select {
			case <-arrive:
				n++
			case <-timeout:
				n = 2
			}
		}
		close(both)
	}()
	pa, pb := HostedPair(call(a, &parA), call(b, &parB))
	if fmt.Sprint(soloA) != fmt.Sprint(parA) || ra.Status != pa.Status {
		return violf("C13:depends-on-concurrent-call", "one MakeFuzz function, input %x: alone it draws %x (%s), while another call with input %x is in progress it draws %x (%s)", a, soloA, ra.Status, b, parA, pa.Status)
	}
	if fmt.Sprint(soloB) != fmt.Sprint(parB) || rb.Status != pb.Status {
		return violf("C13:depends-on-concurrent-call", "one MakeFuzz function, input %x: alone it draws %x (%s), while another call with input %x is in progress it draws %x (%s)", b, soloB, rb.Status, a, parB, pb.Status)
	}
	return nil
}
