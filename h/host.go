package vh

import (
	"bytes"
	"fmt"
	"sync/atomic"
	"testing"

	"pgregory.net/rapid"
)

// The sub-test host: MakeFuzz/MakeCheck return functions of *testing.T, and a failing *testing.T fails its
// parents. TestHost (main_test.go) serves requests and runs each as a sub-test; the binary's exit code is
// chosen by TestMain, not by the testing package.

type hostReq struct {
	fn   func(t *testing.T)
	done chan HostRes
}

// HostRes is the status of one hosted sub-test.
type HostRes struct {
	Status   string // passed skipped failed
	Panicked any    // a panic that escaped fn
	// RunFuzz: the function wrote to the caller's memory: to the input itself or to the bytes that follow it in the
	// same array (the input is handed over as a slice with spare capacity, as a fuzzing engine or a caller that
	// checks prefixes of one buffer would)
	Clobbered string
}

var (
	hostCh  = make(chan hostReq)
	hostSeq int64
)

func serveHost(t *testing.T) {
	for req := range hostCh {
		var res HostRes
		name := fmt.Sprintf("h%d", atomic.AddInt64(&hostSeq, 1))
		t.Run(name, func(st *testing.T) {
			defer func() {
				if r := recover(); r != nil {
					res.Panicked = r
				}
				switch {
				case st.Failed():
					res.Status = "failed"
				case st.Skipped():
					res.Status = "skipped"
				default:
					res.Status = "passed"
				}
			}()
			req.fn(st)
		})
		req.done <- res
	}
}

// Hosted runs fn as a sub-test and reports how it ended.
func Hosted(fn func(t *testing.T)) HostRes {
	req := hostReq{fn: fn, done: make(chan HostRes, 1)}
	hostCh <- req
	return <-req.done
}

// RunFuzz runs MakeFuzz(prop)(t, input) as a sub-test.
func RunFuzz(prop func(*rapid.T), input []byte) HostRes {
	f := rapid.MakeFuzz(prop)
	const guard = 24
	buf := make([]byte, len(input)+guard)
	copy(buf, input)
	for i := len(input); i < len(buf); i++ {
		buf[i] = 0xa5
	}
	in := buf[:len(input)]
	res := Hosted(func(t *testing.T) { f(t, in) })
	if !bytes.Equal(buf[:len(input)], input) {
		res.Clobbered = fmt.Sprintf("the %d input bytes were %x before the call and are %x after it", len(input), input, buf[:len(input)])
	}
	for i := len(input); i < len(buf); i++ {
		if buf[i] != 0xa5 {
			res.Clobbered = fmt.Sprintf("the bytes following the %d-byte input in the caller's array were a5a5.. and are %x after the call", len(input), buf[len(input):])
			break
		}
	}
	return res
}

// RunFuzzCfg is RunFuzz under the flag settings of cfg (Repeat reads -rapid.steps).
func RunFuzzCfg(cfg CheckCfg, prop func(*rapid.T), input []byte) HostRes {
	applyCfg(cfg)
	defer resetFlags()
	return RunFuzz(prop, input)
}

// HostedPair runs two functions as sub-tests at the same time (two host tests serve the request channel).
func HostedPair(fa, fb func(t *testing.T)) (HostRes, HostRes) {
	ra := hostReq{fn: fa, done: make(chan HostRes, 1)}
	rb := hostReq{fn: fb, done: make(chan HostRes, 1)}
	hostCh <- ra
	hostCh <- rb
	return <-ra.done, <-rb.done
}
