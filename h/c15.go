package vh

import (
	"fmt"
	"runtime"
	"strings"
	"sync"
	"sync/atomic"

	"pgregory.net/rapid"
	"vh/drv"
)

// C15 - a generator can be shared by concurrently running checks (binary built with -race).

type C15Case struct {
	Derive  bool     `json:"derive,omitempty"` // the checks derive generators (base.Filter(p)) from a shared base of Chain chained Filters
	Chain   int      `json:"chain,omitempty"`
	Spec    *GenSpec `json:"spec"`
	P       int      `json:"p"`                 // concurrent checks
	Strings []int    `json:"strings,omitempty"` // per check: call String() before draw number k (-1: never)
	Seed    uint64   `json:"seed"`
	Checks  int      `json:"checks"`
	Draws   int      `json:"draws"` // draws per test case
}

type c15 struct{}

func init() { register(c15{}) }

func (c15) ID() string       { return "C15" }
func (c15) NewCase() any     { return &C15Case{} }
func (c15) Cases(c *Ctx) int { return c.Pick(600, 15000) }

var c15Uniq int64

// genLazySpec generates an expression that contains at least one lazily initialised node.
func genLazySpec(dt *drv.T, c *Ctx) *GenSpec {
	inner := GenGenSpec(dt, GenCfg{Depth: c.Pick(1, 2), SmallInts: true, Custom: true, Make: true, BigRegexp: false})
	switch pick(dt, "lazy", "deferred", "deferred", "regexp", "runetable", "string", "custom", "oneof-mix", "make", "make", "perm", "bytes", "sparsefilter", "recdef") {
	case "recdef":
		// a self-referential Deferred generator, hundreds of levels deep in every check at the same time (costly: rare)
		if chance(dt, "recdef", 25) {
			return &GenSpec{K: "recdef"}
		}
		return &GenSpec{K: "deferred", Sub: []*GenSpec{inner}}
	case "sparsefilter":
		// a predicate that accepts one value in 7..12: with a few hundred evaluations on one generator object, anything
		// the generator learns from its own history shows up as a difference to the run that uses it alone
		return &GenSpec{K: "filter", Fn: "mod", FM: int64(drv.IntRange(7, 12).Draw(dt, "fm")), FC: 0, Sub: []*GenSpec{{K: "int", IK: "Int", Mode: "range", SA: 0, SB: 99}}}
	case "perm":
		// not lazy, but the one generator that is built around a slice of the user: every value has to be a fresh copy
		return &GenSpec{K: "perm", N: drv.IntRange(1, 4).Draw(dt, "permn")}
	case "bytes":
		return &GenSpec{K: "slice", Min: -1, Max: 3, Sub: []*GenSpec{{K: "bytesmatch", Re: `[a-c]{0,3}UNIQ`}}}
	case "make":
		// reflection-built generators (structs, arrays, pointers are built lazily through Deferred)
		return &GenSpec{K: "make", Type: pick(dt, "mktype", "struct", "nested", "array", "rec", "ptr", "ptrptr", "map", "slice", "slicenamed", "localA", "localB", "localC", "localA", "localB", "structmapbool")}
	case "deferred":
		return &GenSpec{K: "deferred", Sub: []*GenSpec{inner}}
	case "regexp":
		return &GenSpec{K: pick(dt, "rek", "strmatch", "bytesmatch"), Re: genRegexp(dt, GenCfg{}) + "UNIQ"}
	case "runetable":
		return &GenSpec{K: "string", Min: 1, Max: 6, MaxLen: -1, Sub: []*GenSpec{{K: "runefrom", Tables: []string{pick(dt, "table", tableNames...)}}}}
	case "string":
		return &GenSpec{K: "slice", Min: -1, Max: 4, Sub: []*GenSpec{{K: "string", Min: -1, Max: -1, MaxLen: -1, Short: true}}}
	case "custom":
		return &GenSpec{K: "custom", Body: []*Stmt{{Op: "draw", Label: "c0", Gen: &GenSpec{K: "deferred", Sub: []*GenSpec{inner}}}}}
	}
	return &GenSpec{K: "oneof", Sub: []*GenSpec{{K: "deferred", Sub: []*GenSpec{inner}}, {K: "strmatch", Re: `[a-f]{1,3}UNIQ`}, {K: "filter", Fn: "mod", FM: 2, FC: 0, Sub: []*GenSpec{{K: "deferred", Sub: []*GenSpec{{K: "int", IK: "Int8"}}}}}}}
}

func (c15) Gen(dt *drv.T, c *Ctx) any {
	if chance(dt, "derive", 8) {
		// every check derives a generator of its own from one shared base (three chained Filters) inside its property,
		// at overlapping times, and draws from that
		return &C15Case{Derive: true, Spec: &GenSpec{K: "bool"}, P: drv.IntRange(2, 8).Draw(dt, "p"), Seed: drv.Uint64Range(1, 1<<40).Draw(dt, "seed"),
			Checks: drv.IntRange(2, 20).Draw(dt, "checks"), Draws: drv.IntRange(1, 3).Draw(dt, "draws"), Chain: drv.IntRange(1, 7).Draw(dt, "chain")}
	}
	cs := &C15Case{Spec: genLazySpec(dt, c)}
	cs.P = drv.IntRange(2, 8).Draw(dt, "p")
	for i := 0; i < cs.P; i++ {
		k := -1
		if drv.Bool().Draw(dt, "callsstring") {
			k = drv.IntRange(0, 3).Draw(dt, "stringat")
		}
		cs.Strings = append(cs.Strings, k)
	}
	cs.Seed = drv.Uint64Range(1, 1<<40).Draw(dt, "seed")
	cs.Checks = drv.IntRange(1, 6).Draw(dt, "checks")
	cs.Draws = drv.IntRange(1, 3).Draw(dt, "draws")
	if cs.Spec.K == "filter" {
		cs.Checks = drv.IntRange(20, 60).Draw(dt, "manychecks")
	}
	if cs.Spec.K == "recdef" {
		cs.P, cs.Draws = 8, 1
		cs.Strings = []int{-1, -1, -1, -1, -1, -1, -1, -1}
	}
	return cs
}

// uniquify replaces the UNIQ marker of regular expressions by a literal that no earlier case of this process
// has used, so that the expression is compiled (and cached by the library) for the first time in this case.
func uniquify(s *GenSpec, tag string) *GenSpec {
	cp := *s
	if cp.Re != "" {
		cp.Re = strings.ReplaceAll(cp.Re, "UNIQ", tag)
	}
	cp.Sub = nil
	for _, sub := range s.Sub {
		cp.Sub = append(cp.Sub, uniquify(sub, tag))
	}
	cp.Body = nil
	for _, st := range s.Body {
		stc := *st
		if st.Gen != nil {
			stc.Gen = uniquify(st.Gen, tag)
		}
		cp.Body = append(cp.Body, &stc)
	}
	return &cp
}

// runDerive: P concurrent checks, each deriving base.Filter(own predicate) inside its property.
func (c15) runDerive(c *Ctx, cs *C15Case) Outcome {
	out := Outcome{NonTrivial: true, Classes: []string{"checks-derive-generators-from-a-shared-base", fmt.Sprintf("checks-in-parallel-%d", cs.P)}}
	dir := EnterCaseDir()
	defer LeaveCaseDir(dir)
	rw := getRaceWatch()
	rw.New()
	base := rapid.IntRange(0, 1<<20)
	for k := 0; k < cs.Chain; k++ {
		m := []int{3, 5, 7, 11, 13, 17, 19}[k%7]
		base = base.Filter(func(v int) bool { return v%m != 1 })
	}
	applyCfg(CheckCfg{Seed: cs.Seed, Checks: cs.Checks, ShrinkNS: 0, NoFailFile: true})
	defer resetFlags()
	runOne := func(i int, gate func()) (log []string) {
		tb := NewFakeTB("TestC15")
		func() {
			defer func() {
				if r := recover(); r != nil {
					if _, ok := r.(tbStop); !ok {
						log = append(log, fmt.Sprintf("PANIC %v", r))
					}
				}
			}()
			rapid.Check(tb, func(t *rapid.T) {
				g := base.Filter(func(v int) bool { return v%4 == i%4 })
				gate()
				for k := 0; k < cs.Draws; k++ {
					v := g.Draw(t, "v")
					if v%4 != i%4 {
						log = append(log, fmt.Sprintf("BREACH %d", v))
					}
					log = append(log, fmt.Sprint(v))
				}
			})
		}()
		if _, failed, _, _ := tb.Snapshot(); failed {
			log = append(log, "FAILED")
		}
		return
	}
	logs := make([][]string, cs.P)
	start := make(chan struct{})
	var wg sync.WaitGroup
	for i := 0; i < cs.P; i++ {
		wg.Add(1)
		go func(i int) {
			defer wg.Done()
			<-start
			logs[i] = runOne(i, runtime.Gosched)
		}(i)
	}
	close(start)
	wg.Wait()
	if rep := rw.New(); rep != "" {
		key, lib, sum := raceKey(rep)
		if lib {
			out.Viol = violf("C15:"+key, "data race: %s", sum)
		} else {
			out.Viol = violf("C15:race-outside-library", "data race without a library frame (harness?): %s", sum)
		}
		return out
	}
	for i := range logs {
		for _, l := range logs[i] {
			if strings.HasPrefix(l, "BREACH") || strings.HasPrefix(l, "PANIC") {
				out.Viol = violf("C15:derived-generator-breach", "check %d of %d (generators derived from a shared base of %d chained Filters): %s", i, cs.P, cs.Chain, l)
				return out
			}
		}
		solo := runOne(i, func() {})
		if strings.Join(logs[i], "\n") != strings.Join(solo, "\n") {
			out.Viol = violf("C15:values-differ-from-solo-run", "check %d of %d deriving base.Filter(p) from a shared base drew %.300v; alone with the same seed it draws %.300v", i, cs.P, logs[i], solo)
			return out
		}
	}
	return out
}

func (p c15) Run(c *Ctx, csAny any) Outcome {
	cs := csAny.(*C15Case)
	if cs.Derive {
		return p.runDerive(c, cs)
	}
	out := Outcome{}
	dir := EnterCaseDir()
	defer LeaveCaseDir(dir)
	rw := getRaceWatch()
	rw.New()

	tag := fmt.Sprintf("q%dz", atomic.AddInt64(&c15Uniq, 1))
	spec := uniquify(cs.Spec, tag)
	env := &BuildEnv{} // no interpreter: Custom nodes only draw (goroutine-safe)
	if spec.K == "make" && (spec.Type == "localA" || spec.Type == "localB") {
		// another type of the same name (declared in another function) has been used with Make earlier in the process
		sibling := map[string]string{"localA": "localB", "localB": "localA"}[spec.Type]
		exampleOf(makeTypes[sibling].build(), 1)
		out.Classes = append(out.Classes, "make-after-a-homonymous-type")
	}
	g := spec.Build(env)

	applyCfg(CheckCfg{Seed: cs.Seed, Checks: cs.Checks, ShrinkNS: 0, NoFailFile: true})
	defer resetFlags()
	runOne := func(stringAt int) (log []string, tb *FakeTB) {
		tb = NewFakeTB("TestC15")
		func() {
			defer func() {
				if r := recover(); r != nil {
					if _, ok := r.(tbStop); !ok {
						log = append(log, fmt.Sprintf("PANIC %v", r))
					}
				}
			}()
			rapid.Check(tb, func(t *rapid.T) {
				for k := 0; k < cs.Draws; k++ {
					if stringAt == k {
						_ = g.String()
					}
					v := g.Draw(t, "v")
					log = append(log, Canon(v))
					spec.Scribble(v) // a drawn value belongs to the check that drew it
				}
			})
		}()
		return
	}
	logs := make([][]string, cs.P)
	tbs := make([]*FakeTB, cs.P+1)
	start := make(chan struct{})
	var wg sync.WaitGroup
	for i := 0; i < cs.P; i++ {
		wg.Add(1)
		go func(i int) {
			defer wg.Done()
			<-start
			logs[i], tbs[i] = runOne(cs.Strings[i])
		}(i)
	}
	close(start)
	wg.Wait()
	solo, soloTB := runOne(-1)
	tbs[cs.P] = soloTB

	out.NonTrivial = cs.P >= 2
	out.Classes = append(out.Classes, "lazy-"+cs.Spec.K, fmt.Sprintf("checks-in-parallel-%d", cs.P))
	if rep := rw.New(); rep != "" {
		key, lib, sum := raceKey(rep)
		if lib {
			out.Viol = violf("C15:"+key, "data race: %s", sum)
		} else {
			out.Viol = violf("C15:race-outside-library", "data race without a library frame (harness?): %s", sum)
		}
		return out
	}
	// the property of these checks only draws: a check that reports a falsification or panics has been handed
	// something that is not a value of its generator (running out of valid test cases is not that)
	for i, tb := range tbs {
		who := fmt.Sprintf("check %d of %d running concurrently", i, cs.P)
		lg := solo
		if i == cs.P {
			who = "the check that ran alone afterwards"
		} else {
			lg = logs[i]
		}
		for _, l := range lg {
			if strings.HasPrefix(l, "PANIC ") {
				out.Viol = violf("C15:check-panicked", "%s: a panic escaped rapid.Check: %.400s", who, l)
				return out
			}
		}
		msgs, failed, failNow, skipped := tb.Snapshot()
		if rep := ParseReport(&Obs{Msgs: msgs, Failed: failed, FailNow: failNow, Skipped: skipped}); failed && (rep.Kind == "failed" || rep.Kind == "panic" || rep.Kind == "flaky") {
			out.Viol = violf("C15:check-failed-on-a-property-that-only-draws", "%s: %s: %.400s", who, rep.Kind, rep.Msg)
			return out
		}
	}
	for i := range logs {
		if strings.Join(logs[i], "\n") != strings.Join(solo, "\n") {
			out.Viol = violf("C15:values-differ-from-solo-run", "check %d of %d running concurrently drew %d values %.300v; alone with the same seed it draws %d values %.300v", i, cs.P, len(logs[i]), logs[i], len(solo), solo)
			return out
		}
	}
	return out
}
