// Copyright 2019 Gregory Petrosyan <gregory.petrosyan@gmail.com>
//
// This Source Code Form is subject to the terms of the Mozilla Public
// License, v. 2.0. If a copy of the MPL was not distributed with this
// file, You can obtain one at https://mozilla.org/MPL/2.0/.

/*
Package rapid implements utilities for property-based testing.

[Check] verifies that properties you define hold for a large number
of automatically generated test cases. If a failure is found, rapid
fails the current test and presents an automatically minimized
version of the failing test case.

[T.Repeat] is used to construct state machine (sometimes called "stateful"
or "model-based") tests.

# Generators

Primitives:
  - [Bool]
  - [Rune], [RuneFrom]
  - [Byte], [ByteMin], [ByteMax], [ByteRange]
  - [Int], [IntMin], [IntMax], [IntRange]
  - [Int8], [Int8Min], [Int8Max], [Int8Range]
  - [Int16], [Int16Min], [Int16Max], [Int16Range]
  - [Int32], [Int32Min], [Int32Max], [Int32Range]
  - [Int64], [Int64Min], [Int64Max], [Int64Range]
  - [Uint], [UintMin], [UintMax], [UintRange]
  - [Uint8], [Uint8Min], [Uint8Max], [Uint8Range]
  - [Uint16], [Uint16Min], [Uint16Max], [Uint16Range]
  - [Uint32], [Uint32Min], [Uint32Max], [Uint32Range]
  - [Uint64], [Uint64Min], [Uint64Max], [Uint64Range]
  - [Uintptr], [UintptrMin], [UintptrMax], [UintptrRange]
  - [Float32], [Float32Min], [Float32Max], [Float32Range]
  - [Float64], [Float64Min], [Float64Max], [Float64Range]

Collections:
  - [String], [StringMatching], [StringOf], [StringOfN], [StringN]
  - [SliceOfBytesMatching]
  - [SliceOf], [SliceOfN], [SliceOfDistinct], [SliceOfNDistinct]
  - [Permutation]
  - [MapOf], [MapOfN], [MapOfValues], [MapOfNValues]

User-defined types:
  - [Custom]
  - [Make]

Other:
  - [Map],
  - [Generator.Filter]
  - [SampledFrom], [Just]
  - [OneOf]
  - [Deferred]
  - [Ptr]
*/
package drv
