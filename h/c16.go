//go:build linux && amd64

package vh

import (
	"encoding/json"
	"fmt"
	"os"
	"path/filepath"
	"regexp"
	"strings"
	"syscall"

	"vh/drv"
)

// C16 - saving a fail file is atomic with respect to process crashes (fault enumeration over crash points).

type C16Case struct {
	NameRaw []byte `json:"name_raw"`
	Words   int    `json:"words"` // approximate number of words of the bitstream
	Lines   []int  `json:"lines"` // byte length of each logged output line
	Seed    uint64 `json:"seed"`
	OnlyK   int    `json:"only_k,omitempty"` // replay: only this crash point (0: all)
	PreDir  bool   `json:"predir,omitempty"` // the test's fail file directory exists already (empty) when the save starts
	// the system's directory for temporary files ($TMPDIR) is on another file system than the package directory
	// (a rename from there fails with EXDEV), if the machine has one the harness can write to
	TmpOther bool `json:"tmpother,omitempty"`
	// after every crash point a second, complete save of a shorter test case of the same test goes into the same directory
	Again bool `json:"again,omitempty"`
	// ... and all children of the case have the same process id (each is process 1 of a PID namespace of its own, if the
	// harness may create one)
	SamePID bool `json:"samepid,omitempty"`
}

// otherFSDir creates a directory on a file system other than the one of the working directory, or returns "".
func otherFSDir() string {
	var here syscall.Stat_t
	if syscall.Stat(".", &here) != nil {
		return ""
	}
	for _, cand := range []string{"/dev/shm", "/run/shm", "/run/user/0", "/var/tmp", "/tmp"} {
		var st syscall.Stat_t
		if syscall.Stat(cand, &st) != nil || st.Dev == here.Dev {
			continue
		}
		if d, err := os.MkdirTemp(cand, "vh-c16-"); err == nil {
			return d
		}
	}
	return ""
}

func (cs *C16Case) prog() *Prog {
	p := &Prog{}
	if cs.Words > 0 {
		n := cs.Words / 3
		if n < 1 {
			n = 1
		}
		p.Body = append(p.Body, &Stmt{Op: "draw", Label: "v", Gen: &GenSpec{K: "slice", Min: n, Max: n, Sub: []*GenSpec{{K: "int", IK: "Uint64"}}}})
	}
	for i, l := range cs.Lines {
		p.Body = append(p.Body, &Stmt{Op: "log", Raw: []byte("x"), Rep: l, Site: i})
	}
	p.Body = append(p.Body, &Stmt{Op: "sig", Kind: "Fatalf", Site: 2})
	return p
}

func (cs *C16Case) cfg() CheckCfg {
	return CheckCfg{Name: string(cs.NameRaw), Seed: cs.Seed, Checks: 1, ShrinkNS: 0}
}

type c16 struct{}

func init() { register(c16{}) }

func (c16) ID() string       { return "C16" }
func (c16) NewCase() any     { return &C16Case{} }
func (c16) Cases(c *Ctx) int { return c.Pick(5, 60) }

func (c16) Gen(dt *drv.T, c *Ctx) any {
	cs := &C16Case{Seed: drv.Uint64Range(1, 1<<40).Draw(dt, "seed")}
	cs.NameRaw = []byte(pick(dt, "name", "TestCrash", "Test/crash", "Na me/ü", "x", "", "CON", "a*b"))
	cs.Words = pick(dt, "words", 0, 1, 20, 300, 3000)
	nl := drv.IntRange(0, 4).Draw(dt, "nlines")
	for i := 0; i < nl; i++ {
		cs.Lines = append(cs.Lines, pick(dt, "linelen", 0, 10, 5000, 4096, 65536, 70000, 200000))
	}
	cs.PreDir = drv.Bool().Draw(dt, "predir")
	cs.TmpOther = drv.Bool().Draw(dt, "tmpother")
	cs.Again = chance(dt, "again", 25)
	cs.SamePID = cs.Again && drv.Bool().Draw(dt, "samepid")
	return cs
}

var reStamp = regexp.MustCompile(`\d{4}/\d{2}/\d{2} \d{2}:\d{2}:\d{2}\.\d{6}`)

// normalizeFailFile strips the timestamps of the comment lines.
func normalizeFailFile(b []byte) string {
	lines := strings.Split(string(b), "\n")
	for i, l := range lines {
		if strings.HasPrefix(l, "#") {
			lines[i] = reStamp.ReplaceAllString(l, "<ts>")
		}
	}
	return strings.Join(lines, "\n")
}

func childEnv(cs *C16Case) []string {
	js, _ := json.Marshal(cs)
	env := []string{"VERIF_CHILD=crash", "VERIF_CASE=" + string(js), "GOMAXPROCS=2", "HOME=" + os.Getenv("HOME"), "PATH=" + os.Getenv("PATH"), "GORACE=" + os.Getenv("GORACE")}
	return env
}

func (c16) Run(c *Ctx, csAny any) Outcome {
	cs := csAny.(*C16Case)
	out := Outcome{}
	bin := os.Getenv("VERIF_BIN")
	argv := []string{bin, "-test.run", "^$"}
	env := childEnv(cs)
	name := string(cs.NameRaw)
	tmpOther := ""
	if cs.TmpOther {
		if tmpOther = otherFSDir(); tmpOther != "" {
			env = append(env, "TMPDIR="+tmpOther)
			defer os.RemoveAll(tmpOther)
		}
	}

	traceSamePID = cs.SamePID
	defer func() { traceSamePID = false }()
	// run 0: no crash; counts the crash points and yields the reference file
	d0 := EnterCaseDir()
	r0 := traceChild(0, argv, env, d0)
	if r0.Err != nil {
		LeaveCaseDir(d0)
		panic(fmt.Sprintf("ptrace supervisor unusable: %v", r0.Err))
	}
	files := FailFiles()
	if len(files) != 1 {
		LeaveCaseDir(d0)
		out.Viol = violf("C16:no-reference-file", "name %q: an uninterrupted save left %d fail files (%d fs calls: %v)", name, len(files), r0.Count, r0.Calls)
		return out
	}
	refDir := filepath.Dir(files[0]) // relative to the working directory; observed, not computed
	refBytes, _ := os.ReadFile(files[0])
	ref := normalizeFailFile(refBytes)
	_, _, refWords, perr := ParseFailFile(files[0])
	LeaveCaseDir(d0)
	if perr != nil {
		out.Viol = violf("C16:reference-unparsable", "the uninterrupted save is not a loadable fail file: %v", perr)
		return out
	}
	// what the reference replays to
	prog := cs.prog()
	xr := NewInterp(prog)
	RunFuzzCfg(cs.cfg(), xr.Prop, WordsToBytes(refWords))
	xr.Finish()
	if len(xr.Log) != 1 {
		panic("harness: reference replay")
	}
	refInv := xr.Log[0]

	// a later, uninterrupted and shorter save of the same test into the directory a killed save left behind: whatever
	// the killed one left under temporary names must not end up inside a file that is picked up
	short := *cs
	short.Lines, short.Words, short.OnlyK = nil, cs.Words+30, 0 // more words than an earlier file of this case holds: the later run cannot use that file and saves its own
	envShort := childEnv(&short)
	if tmpOther != "" {
		envShort = append(envShort, "TMPDIR="+tmpOther)
	}
	refShort, shortK := "", 0
	if cs.Again {
		ds := EnterCaseDir()
		rs := traceChild(0, argv, envShort, ds)
		if fs := FailFiles(); rs.Err == nil && len(fs) == 1 {
			b, _ := os.ReadFile(fs[0])
			refShort = normalizeFailFile(b)
			shortK = rs.Count
		}
		LeaveCaseDir(ds)
	}

	K := r0.Count
	c.Stats.Extra["crash_points"] = asInt(c.Stats.Extra["crash_points"]) + K
	between := 0
	for k := 1; k <= K; k++ {
		if cs.OnlyK != 0 && k != cs.OnlyK {
			continue
		}
		dk := EnterCaseDir()
		if cs.PreDir {
			_ = os.MkdirAll(refDir, 0o775)
		}
		rk := traceChild(k, argv, env, dk)
		if rk.Err != nil {
			LeaveCaseDir(dk)
			panic(fmt.Sprintf("ptrace supervisor unusable: %v", rk.Err))
		}
		state := "nothing-on-disk"
		all := AllFiles()
		fails := FailFiles()
		if len(fails) > 0 {
			state = "final-file-present"
		} else if len(all) > 0 {
			state = "temporary-file-only"
			between++
		}
		c.Stats.Classes["crash-state:"+state]++
		c.Stats.Classes["killed-before:"+rk.Name]++
		var viol *Violation
		// structural: whatever would be picked up is complete
		for _, f := range fails {
			b, _ := os.ReadFile(f)
			if normalizeFailFile(b) != ref {
				viol = violf("C16:partial-fail-file", "name %q, %d words, lines %v: killed before fs call %d/%d (%s): %s (%d bytes) differs from the complete file (%d bytes)", name, cs.Words, cs.Lines, k, K, rk.Name, filepath.Base(f), len(b), len(refBytes))
			}
		}
		// operational: what does the next run do with this directory?
		if viol == nil {
			cfg2 := cs.cfg()
			cfg2.Seed = 0
			cfg2.NoFailFile = true
			r2 := runProg(cfg2, prog)
			for _, m := range r2.Obs.Msgs {
				if strings.Contains(m.Text, "ignoring fail file") || strings.Contains(m.Text, "no longer valid") || strings.Contains(m.Text, "no longer reproduces") {
					viol = violf("C16:next-run-rejects-file", "name %q: killed before fs call %d/%d (%s): the next run says: %s", name, k, K, rk.Name, firstLine(m.Text))
				}
			}
			if viol == nil && r2.Rep.FailFile != "" && len(r2.X.Log) > 0 && !r2.X.Log[0].Same(refInv) {
				viol = violf("C16:next-run-replays-other-case", "name %q: killed before fs call %d/%d (%s): the next run replays [%s] from %s, the complete file holds [%s]", name, k, K, rk.Name, r2.X.Log[0].Outcome(), r2.Rep.FailFile, refInv.Outcome())
			}
			if viol == nil && r2.Obs.Escaped != nil {
				viol = violf("C16:next-run-panics", "killed before fs call %d/%d: the next run panicked: %v", k, K, r2.Obs.Escaped)
			}
		}
		if viol == nil && refShort != "" {
			// (the later save gets a file name of its own unless it has the same process id within the same second)
			leftover := len(fails) > 0 && len(all) > len(fails)
			laterOK := func(what string, j int) *Violation {
				for _, f := range FailFiles() {
					b, _ := os.ReadFile(f)
					if n := normalizeFailFile(b); n != ref && n != refShort {
						return violf("C16:partial-data-in-later-fail-file", "name %q: a save was killed before fs call %d/%d (%s); %s (kill point %d), %s (%d bytes) is neither of the two complete files", name, k, K, rk.Name, what, j, filepath.Base(f), len(b))
					}
				}
				return nil
			}
			if ra := traceChild(0, argv, envShort, dk); ra.Err == nil {
				viol = laterOK("after a later, complete save of another test case into the same directory", 0)
			}
			if viol == nil && leftover {
				// the killed save left a temporary file next to its published file: a later save that is itself killed
				// anywhere must not touch the published one
				c.Stats.Classes["crash-state:temporary-file-next-to-final-file"]++
				for j := 1; j <= shortK && viol == nil; j++ {
					dj := EnterCaseDir()
					if cs.PreDir {
						_ = os.MkdirAll(refDir, 0o775)
					}
					traceChild(k, argv, env, dj)
					traceChild(j, argv, envShort, dj)
					viol = laterOK("after a later save into the same directory that was killed as well", j)
					LeaveCaseDir(dj)
				}
			}
		}
		LeaveCaseDir(dk)
		if viol != nil {
			one := *cs
			one.OnlyK = k
			out.Viol = viol
			_ = one
			return out
		}
	}
	out.NonTrivial = between > 0
	out.Classes = append(out.Classes, fmt.Sprintf("crash-points-%d", K))
	if cs.PreDir {
		out.Classes = append(out.Classes, "directory-existed-before")
	}
	if tmpOther != "" {
		out.Classes = append(out.Classes, "TMPDIR-on-another-file-system")
	}
	if refShort != "" {
		out.Classes = append(out.Classes, "later-save-into-the-same-directory")
		if cs.SamePID && !traceSamePIDUnusable {
			out.Classes = append(out.Classes, "all-saves-by-processes-with-the-same-pid")
		}
	}
	return out
}

func asInt(v any) int {
	switch x := v.(type) {
	case int:
		return x
	case float64:
		return int(x)
	}
	return 0
}
