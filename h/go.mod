module vh

go 1.23

require pgregory.net/rapid v0.0.0

replace pgregory.net/rapid => /repo
