package vh

import (
	"fmt"
	"os"
	"path/filepath"
	"strconv"
	"strings"

	"vh/drv"
)

// C17 - unusable fail files are ignored and never change the verdict.

type FileShape struct {
	Kind string `json:"kind"`
	Data []byte `json:"data,omitempty"`
	A    int    `json:"a,omitempty"`
	B    int    `json:"b,omitempty"`
}

type C17Case struct {
	Case    *CheckCase  `json:"case"`
	Files   []FileShape `json:"files"`
	ViaFlag bool        `json:"via_flag,omitempty"` // the first file is also named with -rapid.failfile
	Repro   bool        `json:"repro,omitempty"`    // a file that does reproduce a failure sorts after the unusable ones (same seed field)
}

type c17 struct{}

func init() { register(c17{}) }

func (c17) ID() string       { return "C17" }
func (c17) NewCase() any     { return &C17Case{} }
func (c17) Cases(c *Ctx) int { return c.Pick(400, 8000) }

var c17Kinds = []string{"random", "trunc", "mutate", "mutate", "badnumber", "fields", "otherversion", "empty", "comments", "symlink", "dir", "passing", "passing", "invalid", "whitespace"}

var badNumbers = []string{"0xffffffffffffffffff", "-5", "zz", "1e9", "0x", "18446744073709551616", "0x1 0x2", "+3", "0b102", "١٢٣", "0x1p3", "99999999999999999999999999"}
var badHeaders = []string{"nohash", "v1#2#3", "#", "##", "v0.4.8#", "#5", "v0.4.8#-1", "v0.4.8#x", "v0.4.8#18446744073709551616", "v0.4.8 #1", "\x00#1"}

// otherVersions: ways to derive the version string of "another rapid version" from the real one (observed, e.g. v0.4.8)
var otherVersions = []string{"+x", "+.1", "+.0", "+.", "+.1.2", "+-rc1", "++build5", "+.99999999999999999999", "-v", "bump", "older", "=v0.4.7", "=v0.0.1", "=v1.2.0", "=v1.3.0", "=v10.0.0", "=v0.4", "=v0", "=v", "=0", "=vX.Y.Z", "=v0..8", "=v-1.4.8", "=v0.4.8.", "=v.4.8"}

func otherVersion(version, how string) string {
	out := version + "x"
	switch {
	case strings.HasPrefix(how, "+"):
		out = version + how[1:]
	case strings.HasPrefix(how, "="):
		out = how[1:]
	case how == "-v":
		out = strings.TrimPrefix(version, "v")
	case how == "bump" || how == "older":
		// last numeric component +1 / -1
		i := len(version)
		for i > 0 && version[i-1] >= '0' && version[i-1] <= '9' {
			i--
		}
		if n, err := strconv.Atoi(version[i:]); err == nil {
			if how == "bump" {
				n++
			} else if n > 0 {
				n--
			} else {
				n = 7
			}
			out = version[:i] + strconv.Itoa(n)
		}
	}
	if out == version {
		out = version + "x"
	}
	return out
}

func (c17) Gen(dt *drv.T, c *Ctx) any {
	cs := &C17Case{Case: &CheckCase{}}
	pc := ProgCfg{Gen: GenCfg{Depth: 1, SmallInts: true, RejectHeavy: chance(dt, "rej", 30)}, MaxStmts: 3, Repeat: chance(dt, "sm", 20), Skips: true, SigPct: 60}
	if chance(dt, "neverfails", 40) {
		pc.SigPct = 0
	}
	cs.Case.Prog = GenProg(dt, pc)
	cs.Case.Cfg = genCheckCfg(dt, "TestC17", 40)
	if chance(dt, "nearbudget", 10) {
		// a property that skips about ten cases in eleven, with a small N: whether Check still finds N valid cases
		// within its budget of 10*N skipped ones is often decided by the last few cases - an unusable fail file must
		// not take anything away from that budget
		m := drv.IntRange(9, 13).Draw(dt, "skipm")
		cs.Case.Prog = &Prog{Body: []*Stmt{
			{Op: "draw", Label: "x", Gen: &GenSpec{K: "int", IK: "Int", Mode: "range", SA: 0, SB: int64(m - 1)}},
			{Op: "if", Cond: &Cond{Draw: 0, Op: "nmod", M: int64(m), C: 0}, Body: []*Stmt{{Op: "skip", Kind: pick(dt, "skipkind", skipKinds...)}}},
		}}
		cs.Case.Cfg.Checks = drv.IntRange(1, 4).Draw(dt, "smallN")
	}
	cs.Case.Cfg.NoFailFile = true
	cs.Case.Cfg.ShrinkNS = 0
	n := drv.IntRange(1, 5).Draw(dt, "nfiles")
	for i := 0; i < n; i++ {
		f := FileShape{Kind: pick(dt, "fkind", c17Kinds...)}
		switch f.Kind {
		case "random":
			f.Data = drv.SliceOfN(drv.Byte(), 1, 200).Draw(dt, "fdata")
		case "trunc":
			f.A = drv.IntRange(0, 400).Draw(dt, "cut")
		case "mutate":
			f.A = drv.IntRange(0, 400).Draw(dt, "pos")
			f.B = drv.IntRange(0, 255).Draw(dt, "byte")
		case "badnumber":
			f.Data = []byte(pick(dt, "badnum", badNumbers...))
			f.A = drv.IntRange(0, 3).Draw(dt, "goodbefore")
		case "fields":
			f.Data = []byte(pick(dt, "badhdr", badHeaders...))
		case "passing", "invalid":
			f.A = drv.IntRange(0, 40).Draw(dt, "nwords")
			f.B = pick(dt, "wordval", 0, 0, 1, 255)
		case "comments":
			f.A = drv.IntRange(0, 5).Draw(dt, "ncomments")
		case "whitespace":
			f.Data = []byte(pick(dt, "ws", " ", "\n\n", "\t\n ", "\r\n"))
		case "otherversion":
			f.Data = []byte(pick(dt, "verhow", otherVersions...))
		}
		cs.Files = append(cs.Files, f)
	}
	cs.ViaFlag = chance(dt, "viaflag", 20)
	cs.Repro = chance(dt, "repro", 45)
	return cs
}

func materialize(f FileShape, path, version string, template []byte, seed uint64) {
	write := func(b []byte) {
		if err := os.WriteFile(path, b, 0o664); err != nil {
			panic(err)
		}
	}
	switch f.Kind {
	case "random", "whitespace":
		write(f.Data)
	case "trunc":
		write(template[:f.A%(len(template)+1)])
	case "mutate":
		b := append([]byte{}, template...)
		b[f.A%len(b)] = byte(f.B)
		write(b)
	case "badnumber":
		var sb strings.Builder
		fmt.Fprintf(&sb, "# comment\n%s#1", version)
		for i := 0; i < f.A; i++ {
			sb.WriteString("\n0x1")
		}
		sb.WriteString("\n" + string(f.Data))
		write([]byte(sb.String()))
	case "fields":
		write([]byte("# c\n" + string(f.Data) + "\n0x1\n0x2"))
	case "otherversion":
		write([]byte("# c\n" + otherVersion(version, string(f.Data)) + "#1\n0x0\n0x1"))
	case "empty":
		write(nil)
	case "comments":
		write([]byte(strings.Repeat("# only a comment\n", f.A)))
	case "symlink":
		_ = os.Symlink(path+".does-not-exist", path)
	case "dir":
		_ = os.MkdirAll(path, 0o775)
	case "passing", "invalid":
		words := make([]uint64, f.A)
		for i := range words {
			words[i] = uint64(f.B)
		}
		if f.Kind == "invalid" && len(words) > 2 {
			words = words[:2] // too short for most programs: overrun
		}
		writeFailFile(path, version, seed, words, "pre-seeded "+f.Kind)
	}
}

func (c17) Run(c *Ctx, csAny any) Outcome {
	cs := csAny.(*C17Case)
	out := Outcome{}
	cfg, prog := cs.Case.Cfg, cs.Case.Prog

	// reference: the same (program, seed) in an empty directory
	d1 := EnterCaseDir()
	ref := runProg(cfg, prog)
	LeaveCaseDir(d1)
	if ref.Obs.Escaped != nil {
		out.Viol = violf("C17:panic-escaped-check", "empty directory: a panic escaped rapid.Check: %v", ref.Obs.Escaped)
		return out
	}

	d2 := EnterCaseDir()
	defer LeaveCaseDir(d2)
	base, version, ok := subjectFailFile(cfg.Name)
	if !ok {
		out.Classes = append(out.Classes, "no-template")
		return out
	}
	// template: a valid file written by the library itself
	tdir := filepath.Join(d2, "tmpl")
	_ = os.MkdirAll(tdir, 0o775)
	tpath := filepath.Join(tdir, "t.fail")
	writeFailFile(tpath, version, 42, []uint64{1, 0x10, 0xffff, 0, 7}, "some output\nmore output")
	template, _ := os.ReadFile(tpath)
	_ = os.RemoveAll(tdir)

	// optionally: a file that does reproduce a failure of this program, sorting after all the unusable ones and
	// carrying the same seed field as the generated well-formed ones
	var reproBytes []byte
	var reproInv *Invocation
	fileSeed := uint64(3)
	if cs.Repro && ref.Obs.Failed && (ref.Rep.Kind == "failed" || ref.Rep.Kind == "panic") {
		d3 := EnterCaseDir()
		cfgw := cfg
		cfgw.NoFailFile = false
		rw := runProg(cfgw, prog)
		if fs := FailFiles(); len(fs) == 1 && rw.Last != nil && rw.Last.Falsified {
			reproBytes, _ = os.ReadFile(fs[0])
			reproInv = rw.Last
			_, fileSeed, _, _ = ParseFailFile(fs[0])
		}
		LeaveCaseDir(d3)
		_ = os.Chdir(d2)
	}
	cfg2 := cfg
	nparse := 0
	for i, f := range cs.Files {
		path := strings.TrimSuffix(base, ".fail") + fmt.Sprintf("-u%d.fail", i)
		materialize(f, path, version, template, fileSeed)
		out.Classes = append(out.Classes, "file-"+f.Kind)
		if f.Kind != "symlink" {
			nparse++
		}
		if i == 0 && cs.ViaFlag {
			cfg2.FailFile, _ = filepath.Abs(path)
		}
	}
	reproPath := ""
	if reproBytes != nil {
		reproPath = strings.TrimSuffix(base, ".fail") + "-z-reproducing.fail"
		_ = os.WriteFile(reproPath, reproBytes, 0o664)
		reproPath, _ = filepath.Abs(reproPath)
		out.Classes = append(out.Classes, "reproducing-file-after-unusable-ones")
	}
	// which files are unusable by the documented format alone (unreadable, malformed, other version)? Decided
	// by the harness' own parser, independently of the library.
	malformed := map[string]bool{}
	for _, f := range AllFiles() {
		v, _, _, err := ParseFailFile(f)
		if err != nil || v != version {
			abs, _ := filepath.Abs(f)
			malformed[abs] = true
		}
	}
	nfiles := len(cs.Files)
	if cs.ViaFlag {
		nfiles++ // the flagged file is looked at twice: through the flag and through discovery
		out.Classes = append(out.Classes, "via-flag")
	}
	out.NonTrivial = nparse > 0

	r := runProg(cfg2, prog)
	if r.Obs.Escaped != nil {
		out.Viol = violf("C17:panic-escaped-check", "files %s: a panic escaped rapid.Check: %v", kinds(cs.Files), r.Obs.Escaped)
		return out
	}
	if reproPath != "" {
		// unless an earlier (mutated) file is itself a counterexample, the run has to fail from the reproducing file
		for i := 0; i < len(r.X.Log) && i < nfiles; i++ {
			if r.X.Log[i].Falsified {
				if got, _ := filepath.Abs(r.Rep.FailFile); got != reproPath {
					out.Classes = append(out.Classes, "file-is-a-counterexample")
					out.NonTrivial = false
					return out
				}
				break
			}
		}
		got, _ := filepath.Abs(r.Rep.FailFile)
		if !r.Obs.Failed || got != reproPath || r.Rep.After != 0 {
			out.Viol = violf("C17:unusable-file-shadows-reproducing-one", "files %s followed by a fail file that reproduces a failure: the run reports %q after %d tests from %q (failed=%v), it should fail after 0 tests from %q", kinds(cs.Files), r.Rep.Kind, r.Rep.After, r.Rep.FailFile, r.Obs.Failed, reproPath)
			return out
		}
		if r.FirstBad < 0 || !r.X.Log[r.FirstBad].Same(reproInv) {
			out.Viol = violf("C17:unusable-file-shadows-reproducing-one", "files %s followed by a reproducing fail file: the replayed test case is not the persisted one", kinds(cs.Files))
			return out
		}
		return out
	}
	if r.Rep.FailFile != "" && r.Obs.Failed {
		// the failure is attributed to a fail file
		if abs, _ := filepath.Abs(r.Rep.FailFile); malformed[abs] {
			out.Viol = violf("C17:malformed-file-used", "files %s: the test failed from %q, which is not a well-formed fail file of this version", kinds(cs.Files), r.Rep.FailFile)
			return out
		}
		if r.FirstBad >= 0 && r.FirstBad < nfiles {
			// a file that happens to encode a genuine counterexample is a usable fail file
			out.Classes = append(out.Classes, "file-is-a-counterexample")
			out.NonTrivial = false
			return out
		}
		out.Viol = violf("C17:fails-the-test", "files %s: the test failed from fail file %q although no replayed test case falsified the property", kinds(cs.Files), r.Rep.FailFile)
		return out
	}
	nrep := len(r.X.Log) - len(ref.X.Log)
	usable := nfiles - len(malformed)
	if cs.ViaFlag && malformed[cfg2.FailFile] {
		usable-- // counted twice in nfiles
	}
	if nrep > usable && nrep <= nfiles {
		out.Viol = violf("C17:malformed-file-used", "files %s: %d test cases were replayed from fail files, but only %d files are well-formed fail files of this version", kinds(cs.Files), nrep, usable)
		return out
	}
	if nrep < 0 || nrep > nfiles {
		out.Viol = violf("C17:changes-the-run", "files %s: %d invocations with the files, %d in an empty directory (at most %d replays possible)", kinds(cs.Files), len(r.X.Log), len(ref.X.Log), nfiles)
		return out
	}
	for i := range ref.X.Log {
		if !ref.X.Log[i].Same(r.X.Log[nrep+i]) {
			out.Viol = violf("C17:changes-the-run", "files %s: after %d replay invocations, random test case %d is [%s]; in an empty directory it is [%s]", kinds(cs.Files), nrep, i, r.X.Log[nrep+i].Outcome(), ref.X.Log[i].Outcome())
			return out
		}
	}
	if r.Obs.Failed != ref.Obs.Failed || r.Rep.Kind != ref.Rep.Kind || r.Rep.Msg != ref.Rep.Msg || r.Rep.After != ref.Rep.After || r.Rep.Seed != ref.Rep.Seed {
		out.Viol = violf("C17:changes-the-verdict", "files %s: verdict %v %q %q after %d (seed %d); in an empty directory %v %q %q after %d (seed %d)", kinds(cs.Files),
			r.Obs.Failed, r.Rep.Kind, r.Rep.Msg, r.Rep.After, r.Rep.Seed, ref.Obs.Failed, ref.Rep.Kind, ref.Rep.Msg, ref.Rep.After, ref.Rep.Seed)
		return out
	}
	lines := 0
	for _, m := range r.Obs.Msgs {
		if (m.Kind == "Logf" || m.Kind == "Log") && strings.Contains(m.Text, "fail file") {
			lines++
		}
	}
	if lines < nfiles {
		// which shapes were silent?
		silent := "?"
		if nrep > 0 {
			silent = fmt.Sprintf("%d files were replayed (now passing or invalid)", nrep)
		}
		key := "C17:ignored-without-log-line"
		passing := 0
		for i := 0; i < nrep; i++ {
			if r.X.Log[i].End == "pass" {
				passing++
			}
		}
		if passing > 0 && lines+passing >= nfiles {
			key = "C17:ignored-without-log-line:now-passing" // exactly the replays that pass now are silent
		}
		out.Viol = violf(key, "files %s: %d unusable files but only %d log lines about fail files; %s", kinds(cs.Files), nfiles, lines, silent)
		return out
	}
	return out
}

func kinds(fs []FileShape) string {
	var k []string
	for _, f := range fs {
		k = append(k, f.Kind)
	}
	return "[" + strings.Join(k, " ") + "]"
}

func allKinds(fs []FileShape, kind string) bool {
	for _, f := range fs {
		if f.Kind != kind {
			return false
		}
	}
	return true
}
