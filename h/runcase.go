package vh

import (
	"fmt"
	"math"
	"os"
	"strings"
	"sync/atomic"

	"vh/drv"
)

// CheckCase is the common case shape of the checks that run one generated program under rapid.Check.
type CheckCase struct {
	Cfg  CheckCfg `json:"cfg"`
	Prog *Prog    `json:"prog"`
	Long bool     `json:"long,omitempty"` // C07: a run of tens of thousands of test cases before the first falsified one
}

// CaseRun is everything observed when running a CheckCase.
type CaseRun struct {
	Cfg      CheckCfg
	X        *Interp
	Obs      *Obs
	Rep      *Report
	FirstBad int // index of the first ground-truth falsified invocation, -1 if none
	Last     *Invocation
	Rejects  int64
}

func runProg(cfg CheckCfg, prog *Prog) *CaseRun { return runProgHook(cfg, prog, nil) }

// runProgHook: onDone is called with every invocation once its record is complete (after the library has run its cleanups).
func runProgHook(cfg CheckCfg, prog *Prog, onDone func(*Invocation)) *CaseRun {
	x := NewInterp(prog)
	x.OnDone = onDone
	obs := RunCheck(cfg, x.Prop)
	x.Finish()
	r := &CaseRun{Cfg: cfg, X: x, Obs: obs, Rep: ParseReport(obs), FirstBad: -1, Rejects: atomic.LoadInt64(&x.Env.Rejects)}
	for i, inv := range x.Log {
		if inv.Falsified {
			r.FirstBad = i
			break
		}
	}
	if n := len(x.Log); n > 0 {
		r.Last = x.Log[n-1]
	}
	if os.Getenv("VERIF_DEBUG") != "" {
		fmt.Fprintf(os.Stderr, "---- runProg cfg=%+v: %d invocations, failed=%v report=%q %q\n", cfg, len(x.Log), obs.Failed, r.Rep.Kind, r.Rep.Msg)
		for i, inv := range x.Log {
			if i < 40 || i >= len(x.Log)-5 {
				fmt.Fprintf(os.Stderr, "  inv %d: falsified=%v rejects=%d %s\n", i, inv.Falsified, inv.Rejects, inv.Outcome())
			}
		}
		for _, m := range obs.Msgs {
			fmt.Fprintf(os.Stderr, "  TB %s: %s\n", m.Kind, firstLine(m.Text))
		}
	}
	return r
}

func (r *CaseRun) reportedFailure() bool {
	k := r.Rep.Kind
	return k == "failed" || k == "panic" || k == "flaky" || k == "other"
}

// expectedDrawLines renders what the library should have logged for the draws of inv.
func expectedDrawLines(inv *Invocation) [][2]string {
	var out [][2]string
	for i, d := range inv.All {
		label := d.Label
		if label == "" {
			label = fmt.Sprintf("#%d", i)
		}
		out = append(out, [2]string{label, d.Text})
	}
	return out
}

// oracleReportIsReal implements the C01 clauses that relate the report to the ground truth.
func oracleReportIsReal(r *CaseRun) *Violation {
	if r.X.Aborted != "" {
		return violf("loops-instead-of-failing", "%s", r.X.Aborted)
	}
	if r.Obs.Escaped != nil {
		return violf("panic-escaped-check", "a panic escaped rapid.Check: %v", r.Obs.Escaped)
	}
	if r.Rep.Kind == "flaky" {
		return violf("flaky-on-deterministic-property", "a property that is a deterministic function of its draws was called flaky: %s", firstLine(r.Rep.Repro))
	}
	if r.FirstBad < 0 {
		if r.reportedFailure() {
			return violf("failure-without-falsification", "Check reported %q (%s) although no executed test case falsified the property (%d invocations)", r.Rep.Kind, r.Rep.Msg, len(r.X.Log))
		}
		return nil
	}
	if r.Rep.Kind != "failed" && r.Rep.Kind != "panic" {
		return nil // a lost falsification is C02's business
	}
	last := r.Last
	if !last.Falsified {
		return violf("presented-case-passes", "the final test case presented as failing (%q) does not falsify the property: it ended %q with draws %s", r.Rep.Msg, last.End, last.DrawCanon())
	}
	switch last.End {
	case "fatal", "panic":
		if last.WinKind != "FailNow" && r.Rep.Msg != last.WinMsg {
			return violf("message-names-other-failure", "the report names %q but the presented test case fails with %q", r.Rep.Msg, last.WinMsg)
		}
	case "nf", "nf+skip", "nf+lib":
		ok := false
		for _, m := range last.Msgs {
			if m == r.Rep.Msg {
				ok = true
			}
		}
		if !ok {
			return violf("message-names-other-failure", "the report names %q but the presented test case raised only %q", r.Rep.Msg, last.Msgs)
		}
	}
	want := expectedDrawLines(last)
	got := r.Rep.DrawLines
	if len(got) != len(want) {
		return violf("logged-draws-differ", "the presented test case received %d draws but %d were logged: want %v, got %v", len(want), len(got), want, got)
	}
	for i := range want {
		if want[i][1] != got[i][1] || (last.All[i].Label != "action" && want[i][0] != got[i][0]) {
			return violf("logged-draws-differ", "draw %d: received %s=%s, logged %s=%s", i, want[i][0], want[i][1], got[i][0], got[i][1])
		}
	}
	return nil
}

// oracleFailFileReplays feeds the words of the written fail file through MakeFuzz and compares with the
// presented test case.
func oracleFailFileReplays(r *CaseRun, prog *Prog) *Violation {
	files := FailFiles()
	if len(files) == 0 {
		return nil
	}
	return oracleFailFileReplaysPath(r, prog, files[0])
}

func oracleFailFileReplaysPath(r *CaseRun, prog *Prog, path string) *Violation {
	files := []string{path}
	_, _, words, err := ParseFailFile(files[0])
	if err != nil {
		return violf("failfile-unparsable", "fail file %s: %v", files[0], err)
	}
	x2 := NewInterp(prog)
	res := RunFuzzCfg(r.Cfg, x2.Prop, WordsToBytes(words))
	x2.Finish()
	if res.Panicked != nil {
		return violf("failfile-replay-panics", "replaying the fail file through MakeFuzz panicked: %v", res.Panicked)
	}
	if len(x2.Log) != 1 {
		return violf("failfile-replay-invocations", "MakeFuzz invoked the property %d times", len(x2.Log))
	}
	rp := x2.Log[0]
	if !rp.Same(r.Last) || res.Status != "failed" {
		return violf("failfile-does-not-reproduce", "fail file words %x replay as [%s] (%s), the presented test case was [%s]", words, rp.Outcome(), res.Status, r.Last.Outcome())
	}
	return nil
}

func firstLine(s string) string {
	if i := strings.IndexByte(s, '\n'); i >= 0 {
		return s[:i]
	}
	return s
}

func prefixKey(id string, v *Violation) *Violation {
	if v != nil && !strings.HasPrefix(v.Key, id+":") {
		v.Key = id + ":" + v.Key
	}
	return v
}

// genCheckCfg generates the flag settings shared by the Check-based properties.
func genCheckCfg(dt *drv.T, name string, maxChecks int) CheckCfg {
	cfg := CheckCfg{Name: name}
	switch pick(dt, "seedhow", "any", "any", "small", "top") {
	case "small":
		cfg.Seed = drv.Uint64Range(1, 1000).Draw(dt, "seed")
	case "top":
		// around 2^63 and up to just below 2^64 (far enough from it for the per-case offsets not to wrap to 0)
		cfg.Seed = pick(dt, "seedbase", uint64(1)<<63, 1<<63-3000, 1<<63+12345, math.MaxUint64-1<<24, 3<<62) + drv.Uint64Range(0, 5000).Draw(dt, "seedoff")
	default:
		cfg.Seed = drv.Uint64Range(1, math.MaxUint64-1<<24).Draw(dt, "seed")
	}
	cfg.Checks = drv.IntRange(1, maxChecks).Draw(dt, "checks")
	cfg.Steps = pick(dt, "steps", 1, 3, 10, 30, 60)
	cfg.ShrinkNS = -1
	return cfg
}

// compareRuns compares the invocation logs of two runs of the same (program, flags, seed). Minimization is
// deterministic only as long as its deadline is not reached, so runs that came anywhere near it are compared
// only up to the reproduction of the failure (the deadline cut depends on machine load, not on the library).
func compareRuns(cfg CheckCfg, r1, r2 *CaseRun, what string) *Violation {
	n1, n2 := len(r1.X.Log), len(r2.X.Log)
	full := cfg.ShrinkNS == 0 || (cfg.ShrinkNS > 0 && r1.Obs.Dur.Nanoseconds() < cfg.ShrinkNS/4 && r2.Obs.Dur.Nanoseconds() < cfg.ShrinkNS/4)
	if !full {
		lim := r1.FirstBad + 2
		if r1.FirstBad < 0 {
			lim = n1
		}
		if n1 > lim {
			n1 = lim
		}
		if n2 > lim {
			n2 = lim
		}
	}
	if n1 != n2 {
		return violf("rerun-differs", "%s: %d invocations in one run, %d in the other", what, n1, n2)
	}
	for i := 0; i < n1; i++ {
		if a, b := r1.X.Log[i], r2.X.Log[i]; !a.Same(b) {
			return violf("rerun-differs", "%s: invocation %d was [%s] in one run and [%s] in the other", what, i, a.Outcome(), b.Outcome())
		}
	}
	if full && r1.Obs.Failed != r2.Obs.Failed {
		return violf("rerun-differs", "%s: verdict differs", what)
	}
	return nil
}
