package vh

import (
	"context"
	"errors"
	"fmt"
	"regexp"
	"runtime"
	"strings"
	"sync"
	"sync/atomic"
	"time"

	"pgregory.net/rapid"
)

// Stmt is one statement of the generated property language (DESIGN.md 3.2).
type Stmt struct {
	Op      string    `json:"op"` // draw if sig skip cleanup ctx log sleep go repeat
	Gen     *GenSpec  `json:"gen,omitempty"`
	Label   string    `json:"label,omitempty"`
	Cond    *Cond     `json:"cond,omitempty"`
	Body    []*Stmt   `json:"body,omitempty"`
	Kind    string    `json:"kind,omitempty"`
	Site    int       `json:"site,omitempty"`
	N       int       `json:"n,omitempty"`
	D       int64     `json:"d,omitempty"`
	Actions []*Action `json:"actions,omitempty"`
	Inv     []*Stmt   `json:"inv,omitempty"`
	HasInv  bool      `json:"hasinv,omitempty"`
	SM      string    `json:"sm,omitempty"`  // state machine built with StateMachineActions on this menu type
	Raw     []byte    `json:"raw,omitempty"` // log: payload (repeated Rep times) instead of the synthetic one
	Rep     int       `json:"rep,omitempty"`
	Shared  bool      `json:"shared,omitempty"` // repeat: one actions map for all invocations
	Vary    bool      `json:"vary,omitempty"`   // sig: the message contains something that differs from execution to execution (a counter, an address)
	Empty   bool      `json:"empty,omitempty"`  // sig: signalled with an empty message (t.Error(), t.Errorf(""), panic(""))
}

// Cond is a condition on the measure of an earlier draw of the same scope.
type Cond struct {
	Draw int    `json:"draw"`
	Op   string `json:"op"` // ge le eq mod true
	C    int64  `json:"c"`
	M    int64  `json:"m,omitempty"`
}

type Action struct {
	Name string  `json:"name"`
	Body []*Stmt `json:"body,omitempty"`
}

type Prog struct {
	Body []*Stmt `json:"body"`
}

var (
	fatalKinds    = []string{"Fatalf", "Fatal", "FailNow"}
	nonFatalKinds = []string{"Errorf", "Error", "Fail"}
	panicKinds    = []string{"panicString", "panicError", "panicCustom", "nilDeref", "indexOOR", "divZero"}
	allSigKinds   = append(append(append([]string{}, fatalKinds...), nonFatalKinds...), panicKinds...)
	skipKinds     = []string{"Skip", "Skipf", "SkipNow"}
)

func sigClass(kind string) string {
	switch kind {
	case "Fatalf", "Fatal", "FailNow":
		return "fatal"
	case "Errorf", "Error", "Fail":
		return "nonfatal"
	}
	return "panic"
}

// DrawRec is one value a scope received from Draw.
type DrawRec struct {
	Label string
	Text  string // %#v at the time of the draw, as the library would log it
	Canon string
	M     int64
	Val   any
	Spec  *GenSpec
}

// Event is one entry of the ground-truth trace of an invocation.
type Event struct {
	Seq    int64
	K      string // sig skip creg crun cleave ctx astart aend istart iend cstart cend bleave adraw
	Scope  int
	ID     int    // cleanup id / ctx id
	Name   string // action name, signal kind, skip kind
	Class  string // sig: fatal nonfatal panic
	Site   string // sig: harness call stack key
	Where  string // sig/skip: body action inv custom cleanup ccleanup go
	Msg    string
	Normal bool
	Live   bool // ctx sample
	Ctx    context.Context
}

type scope struct {
	id    int
	kind  string // prop custom
	t     *rapid.T
	draws []DrawRec // committed draws: what conditions and messages depend on (draws of skipped actions are rolled back)
	all   []DrawRec // everything this scope received from Draw, in order
	ctxs  []context.Context
	subs  map[*GenSpec]*rapid.Generator[any]
}

// Invocation is the ground truth about one call of the property function.
type Invocation struct {
	Idx    int
	Seq0   int64
	TID    string
	Draws  []DrawRec // committed draws of the property scope (incl. completed actions), in order
	All    []DrawRec // every draw the property scope received, incl. those of skipped actions
	Events []Event
	scopes []*scope

	// derived by finalize()
	Done      bool
	End       string // pass nf skip lib fatal panic
	Falsified bool
	NVA       bool   // ended by the library because no action could run (>= 100 consecutive skipped actions)
	Site      string // failure site in the harness' terms (C05)
	WinMsg    string // message of the winning fatal/panic signal
	WinKind   string
	Msgs      []string // messages of all failure signals raised
	NFCount   int
	SigCount  int
	Swallowed bool // a fatal/panic signal was raised but the body still returned normally
	LibAbort  bool // the body was ended by a panic the library raised (rejected or exhausted input, Repeat giving up)
	Skips     int
	Actions   int   // completed actions
	ASkips    int   // skipped/aborted actions
	CRetries  int   // Custom function attempts that were rejected
	Rejects   int64 // rejected attempts observed by the harness' own closures during this invocation (lower bound)

	rej0, key0 int64
	outcome    string
	OutHash    uint64 // hash of Outcome(), kept after compaction
	Compacted  bool
}

// Interp runs a Prog against the *rapid.T the library under test hands out and keeps the invocation log.
type Interp struct {
	Prog       *Prog
	Env        *BuildEnv
	MaxActions int
	Aborted    string // set when the harness had to break out of a library loop
	Log        []*Invocation
	Hook       func(x *Interp, t *rapid.T) // optional: runs instead of Prog.Body (C03 etc.)
	OnDone     func(inv *Invocation)       // optional: called when the record of an invocation is complete

	late     []lateSig
	mu       sync.Mutex
	gens     map[*GenSpec]*rapid.Generator[any]
	cur      *Invocation
	nextID   int
	actCount int
	shared   map[*Stmt]*sharedActions

	sawFalsified bool
	drawFrame    *frame // the frame whose Draw call is in progress (signals raised by predicates)
}

type harnessAbort struct{ why string }

type lateSig struct{ rel, done chan struct{} }

func NewInterp(p *Prog) *Interp {
	x := &Interp{Prog: p, Env: &BuildEnv{}, MaxActions: 100000}
	x.Env.X = x
	x.gens = map[*GenSpec]*rapid.Generator[any]{}
	if p != nil {
		collectDrawGens(p.Body, x.Env, x.gens)
		for _, st := range allStmts(p.Body) {
			for _, a := range st.Actions {
				collectDrawGens(a.Body, x.Env, x.gens)
			}
		}
	}
	return x
}

func allStmts(body []*Stmt) []*Stmt {
	var out []*Stmt
	for _, st := range body {
		out = append(out, st)
		out = append(out, allStmts(st.Body)...)
		for _, a := range st.Actions {
			out = append(out, allStmts(a.Body)...)
		}
		out = append(out, allStmts(st.Inv)...)
	}
	return out
}

func (x *Interp) ev(e Event) {
	e.Seq = nextSeq()
	x.mu.Lock()
	x.cur.Events = append(x.cur.Events, e)
	x.mu.Unlock()
}

// Begin starts the record of a new invocation (and completes the previous one).
func (x *Interp) Begin(t *rapid.T) *Invocation {
	x.finish()
	inv := &Invocation{Idx: len(x.Log), Seq0: nextSeq(), TID: fmt.Sprintf("%p", t)}
	inv.scopes = []*scope{{id: 0, kind: "prop", t: t, subs: x.gens}}
	inv.rej0, inv.key0 = atomic.LoadInt64(&x.Env.Rejects), atomic.LoadInt64(&x.Env.KeyCalls)
	x.Log = append(x.Log, inv)
	x.cur = inv
	x.actCount = 0
	for _, l := range x.late {
		l.rel <- struct{}{} // signal now, while this (later) invocation is running
		<-l.done
	}
	x.late = nil
	return inv
}

// Finish completes the record of the last invocation; call it after the library returned.
func (x *Interp) Finish() {
	x.finish()
	// goroutines still waiting for a next invocation that never comes are let go without signalling
	for _, l := range x.late {
		close(l.rel)
		<-l.done
	}
	x.late = nil
}

func (x *Interp) finish() {
	if x.cur != nil && !x.cur.Done {
		inv := x.cur
		// by now the library has run the cleanups of this invocation: every context handed out must be cancelled
		for _, sc := range inv.scopes {
			x.sampleCtxs(sc, "final")
		}
		inv.finalize()
		if inv.Falsified {
			x.sawFalsified = true
		}
		var keyed int64
		for _, sc := range inv.scopes {
			if sc.kind == "prop" {
				for _, d := range sc.all {
					if d.Spec != nil {
						keyed += d.Spec.KeyedLen(d.Val)
					}
				}
			}
		}
		dups := atomic.LoadInt64(&x.Env.KeyCalls) - inv.key0 - keyed
		if dups < 0 {
			dups = 0
		}
		inv.Rejects = atomic.LoadInt64(&x.Env.Rejects) - inv.rej0 + dups + int64(inv.ASkips) + int64(inv.CRetries)
		inv.Outcome()
		if x.OnDone != nil {
			x.OnDone(inv)
		}
		// keep the first invocations and the most recent ones in full, summaries of the rest
		if n := len(x.Log); n > 400 {
			if old := x.Log[n-150]; !old.Compacted {
				old.compact()
			}
		}
	}
}

// Prop is the property function handed to the library under test.
func (x *Interp) Prop(t *rapid.T) {
	inv := x.Begin(t)
	sc := inv.scopes[0]
	normal := false
	defer func() {
		// no recover here: the library must see the original panic and its stack
		x.ev(Event{K: "bleave", Normal: normal})
	}()
	if x.Hook != nil {
		x.Hook(x, t)
	} else {
		x.exec(&frame{sc: sc, where: "body"}, x.Prog.Body)
	}
	normal = true
}

type frame struct {
	sc    *scope
	where string
}

func (x *Interp) exec(fr *frame, body []*Stmt) {
	for _, st := range body {
		x.execStmt(fr, st)
	}
}

func (c *Cond) eval(draws []DrawRec) bool {
	if c == nil || c.Op == "true" {
		return true
	}
	if len(draws) == 0 {
		return false
	}
	i := c.Draw % len(draws)
	if i < 0 {
		i += len(draws)
	}
	m := draws[i].M
	switch c.Op {
	case "ge":
		return m >= c.C
	case "le":
		return m <= c.C
	case "eq":
		return m == c.C
	case "ne":
		return m != c.C
	case "mod":
		return mod(m, c.M) == c.C
	case "nmod":
		return mod(m, c.M) != c.C
	}
	return false
}

func (x *Interp) execStmt(fr *frame, st *Stmt) {
	t := fr.sc.t
	switch st.Op {
	case "draw":
		g := fr.sc.subs[st.Gen]
		x.ev(Event{K: "dbeg", Scope: fr.sc.id})
		v := func() any {
			prev := x.drawFrame
			x.drawFrame = fr
			defer func() { x.drawFrame = prev }()
			return g.Draw(t, st.Label)
		}()
		x.ev(Event{K: "dret", Scope: fr.sc.id})
		x.recordDraw(fr.sc, st.Label, v, st.Gen)
	case "if":
		if st.Cond.eval(fr.sc.draws) {
			x.exec(fr, st.Body)
		}
	case "ifinv":
		// true only in the N-th invocation of this interpreter: the one deliberately non-deterministic statement
		// (C02: a test case that falsifies the property on its first execution only)
		// Kind "gen": ... and only while no earlier invocation has been falsified, i.e. during the random search: a
		// property whose precondition (an external resource, say) fails once, before anything is drawn (C11)
		if x.cur.Idx == st.N && (st.Kind != "gen" || !x.sawFalsified) {
			x.exec(fr, st.Body)
		}
	case "recovered":
		// the code under test calls back into the test under a recover of its own (the safety net of a server around
		// a handler, fmt formatting a value whose String method asserts): a Fatal, Fatalf or FailNow raised in there is
		// swallowed as a panic - but the failure has been signalled on T all the same. Fatal kinds only: a raw panic
		// that the user's own recover swallows is nobody's business.
		func() {
			defer func() { _ = recover() }()
			x.exec(&frame{sc: fr.sc, where: "recovered"}, st.Body)
		}()
	case "goexit":
		// the goroutine that runs the test case is made to exit (runtime.Goexit): this is how FailNow, Fatalf and
		// SkipNow of a real *testing.T end a call - the enclosing test's T, which a property or a cleanup callback can
		// see through its closure (require.NoError(outerT, ...)). C10 only, in cases run on a goroutine of their own
		x.ev(Event{K: "goexit", Scope: fr.sc.id, Where: fr.where})
		runtime.Goexit()
	case "ifinvge":
		// true from the N-th invocation on, "ifinvmod": in every invocation whose index is D modulo N. Only for
		// properties that are never falsified (C09: a property that needs no input, or starts to draw late, or is
		// skipped now and then for reasons of its own): what Check owes such a property does not depend on its being
		// a function of its draws
		if x.cur.Idx >= st.N {
			x.exec(fr, st.Body)
		}
	case "ifinvmod":
		if st.N > 0 && int64(x.cur.Idx%st.N) == st.D {
			x.exec(fr, st.Body)
		}
	case "sig":
		x.signal(fr, st)
	case "skip":
		x.ev(Event{K: "skip", Scope: fr.sc.id, Name: st.Kind, Where: fr.where})
		switch st.Kind {
		case "Skipf":
			t.Skipf("skip %d", st.Site)
		case "SkipNow":
			t.SkipNow()
		default:
			t.Skip("skip", st.Site)
		}
	case "cleanup":
		if st.Kind == "nil" {
			// a nil func value (an optional release function that is not set): there is nothing to run for it; whatever
			// the library makes of it, the cleanups registered before and after it are owed their run (C10 only)
			t.Cleanup(nil)
			return
		}
		x.mu.Lock()
		x.nextID++
		id := x.nextID
		x.mu.Unlock()
		sc := fr.sc
		where := "cleanup"
		if sc.kind == "custom" {
			where = "ccleanup"
		}
		x.ev(Event{K: "creg", Scope: sc.id, ID: id})
		t.Cleanup(func() { x.cleanupEntry(sc, id, where, st) })
	case "ctx":
		ctx := t.Context()
		x.mu.Lock()
		known := -1
		for i, c := range fr.sc.ctxs {
			if c == ctx {
				known = i
			}
		}
		if known < 0 && fr.where != "cleanup" && fr.where != "ccleanup" {
			// contexts taken during cleanup are fresh, already cancelled ones by design: they are checked on the spot
			// and not tracked (tracking them made every later cleanup sample all of them: quadratic traces)
			fr.sc.ctxs = append(fr.sc.ctxs, ctx)
			known = len(fr.sc.ctxs) - 1
		}
		x.mu.Unlock()
		x.ev(Event{K: "ctx", Scope: fr.sc.id, ID: known, Live: ctx.Err() == nil, Where: fr.where, Ctx: ctx})
	case "log":
		payload := logPayload(st.N, st.Site)
		if st.Raw != nil {
			payload = strings.Repeat(string(st.Raw), max(st.Rep, 1))
		}
		if st.Kind == "Log" {
			t.Log(payload)
		} else {
			t.Logf("%s", payload)
		}
	case "sleep":
		if x.cur.Idx == st.N {
			time.Sleep(time.Duration(st.D))
		}
	case "go":
		var wg sync.WaitGroup
		wg.Add(1)
		go func() {
			defer wg.Done()
			x.exec(&frame{sc: fr.sc, where: "go"}, st.Body)
		}()
		wg.Wait()
	case "golate":
		// a goroutine started by this test case that signals (non-fatally) on this test case's T only when the NEXT
		// invocation of the property begins
		rel, done := make(chan struct{}), make(chan struct{})
		x.late = append(x.late, lateSig{rel: rel, done: done})
		go func() {
			defer close(done)
			if _, ok := <-rel; ok {
				x.exec(&frame{sc: fr.sc, where: "go"}, st.Body)
			}
		}()
	case "repeat":
		x.repeat(fr, st)
	default:
		panic("harness: unknown statement " + st.Op)
	}
}

func (x *Interp) recordDraw(sc *scope, label string, v any, spec *GenSpec) {
	d := DrawRec{Label: label, Text: fmt.Sprintf("%#v", v), Canon: Canon(v), M: Measure(v), Val: v, Spec: spec}
	sc.draws = append(sc.draws, d)
	sc.all = append(sc.all, d)
}

func (x *Interp) sampleCtxs(sc *scope, phase string) {
	x.mu.Lock()
	ctxs := append([]context.Context(nil), sc.ctxs...)
	x.mu.Unlock()
	for i, c := range ctxs {
		x.ev(Event{K: "ctxs", Scope: sc.id, ID: i, Live: c.Err() == nil, Where: phase})
	}
}

func logPayload(n, salt int) string {
	if n <= 0 {
		return ""
	}
	b := make([]byte, n)
	for i := range b {
		b[i] = "abcdefghijklmnopqrstuvwxyz #0123456789"[(i*7+salt)%38]
	}
	return string(b)
}

// ---- signals ----------------------------------------------------------------------------------------

type custPanic struct {
	A int
	B string
}

type panicErr struct{ s string }

func (e *panicErr) Error() string { return e.s }

func (x *Interp) signal(fr *frame, st *Stmt) {
	var last int64
	if n := len(fr.sc.draws); n > 0 {
		last = fr.sc.draws[n-1].M
	}
	base := fmt.Sprintf("sig%d/%s/%s/m%d", st.Site, st.Kind, fr.where, last)
	class := sigClass(st.Kind)
	if st.Empty {
		switch st.Kind {
		case "Fatalf", "Fatal", "Errorf", "Error", "panicString", "panicError":
			base = "" // a failure is a failure whatever its message
		}
	}
	if st.Vary && base != "" {
		// "~v<n>~": a part of the message that is different in every execution (a sequence number, a pointer, a
		// duration); comparisons of the harness leave it out (stripVary)
		base += fmt.Sprintf(" ~v%d~", atomic.AddInt64(&varyCounter, 1))
	}
	msg := base // what the library is expected to show for this failure
	switch st.Kind {
	case "FailNow":
		msg = "(*T).FailNow() called"
	case "Fail":
		msg = "(*T).Fail() called"
	case "panicCustom":
		msg = fmt.Sprintf("%v", custPanic{st.Site, base})
	case "nilDeref":
		msg = "runtime error: invalid memory address or nil pointer dereference"
	case "indexOOR":
		msg = "runtime error: index out of range [5] with length 3"
	case "divZero":
		msg = "runtime error: integer divide by zero"
	}
	site := ""
	if class != "nonfatal" {
		site = fmt.Sprintf("%d/%s@%s", st.Site%numSites, st.Kind, harnessStack())
		if (st.Site%numSites == 4 && st.Kind == "panicString") || (st.Site%numSites == 5 && st.Kind == "panicError") || (st.Site%numSites == 3 && st.Kind == "Fatalf") {
			site += fmt.Sprintf("line%d", (st.Site/numSites)%2) // two raising lines inside one closure
		}
	}
	x.ev(Event{K: "sig", Scope: fr.sc.id, Name: st.Kind, Class: class, Site: site, Where: fr.where, Msg: msg})
	sites[st.Site%numSites](fr.sc.t, st.Kind, base, st.Site)
}

var (
	varyCounter int64
	reVary      = regexp.MustCompile(` ~v\d+~`)
)

// stripVary removes the parts of failure messages that are deliberately different in every execution.
func stripVary(s string) string {
	if !strings.Contains(s, "~v") {
		return s
	}
	return reVary.ReplaceAllString(s, "")
}

// cleanupEntry is the body of every registered cleanup callback. It is a named method (not a closure of execStmt,
// whose number changes whenever another closure is added there): harnessStack stops at it by name.
//
//go:noinline
func (x *Interp) cleanupEntry(sc *scope, id int, where string, st *Stmt) {
	x.ev(Event{K: "crun", Scope: sc.id, ID: id})
	x.sampleCtxs(sc, "cleanup")
	normal := false
	defer func() { x.ev(Event{K: "cleave", Scope: sc.id, ID: id, Normal: normal}) }()
	x.exec(&frame{sc: sc, where: where}, st.Body)
	normal = true
}

// predSignal raises the signal of a "sig" predicate on the T whose Draw call is in flight.
func (x *Interp) predSignal(s *GenSpec) {
	fr := x.drawFrame
	if fr == nil || x.cur == nil || x.cur.Done {
		return
	}
	x.signal(&frame{sc: fr.sc, where: "pred"}, &Stmt{Op: "sig", Kind: s.SigKind, Site: s.SigSite})
}

// harnessStack renders the harness frames of the current call stack (function:line), innermost first, up to
// the entry point of the property, of the cleanup callback or of the Custom function the signal is raised in.
// Library frames in between are left out on purpose. The library compares at most 32 frames of a failure's
// stack, so only frames that are certainly inside that window are used (the signal itself adds up to 5 more
// frames below this one): two failures the library must treat as the same are then the same here as well.
func harnessStack() string {
	pcs := make([]uintptr, 64)
	pcs = pcs[:runtime.Callers(3, pcs)]
	frames := runtime.CallersFrames(pcs)
	var b strings.Builder
	for n := 0; n < 24; n++ {
		f, more := frames.Next()
		if strings.HasPrefix(f.Function, "vh.RunCheck") || strings.HasPrefix(f.Function, "vh.RunFuzz") || strings.HasPrefix(f.Function, "vh.Hosted") ||
			strings.HasPrefix(f.Function, "vh.serveHost") || strings.HasPrefix(f.Function, "testing.") || strings.HasPrefix(f.Function, "vh.hosted") {
			break
		}
		if strings.HasPrefix(f.Function, "vh.") {
			fn := strings.TrimPrefix(f.Function, "vh.")
			fmt.Fprintf(&b, "%s:%d;", fn, f.Line)
			if fn == "(*Interp).Prop" || fn == "(*Interp).cleanupEntry" || fn == "(*Interp).runCustom" {
				break
			}
		}
		if !more {
			break
		}
	}
	return b.String()
}

const numSites = 6

var sites = [numSites]func(t *rapid.T, kind, msg string, n int){site0, site1, site2, site3, runAction, maybeValue}

//go:noinline
func site0(t *rapid.T, kind, msg string, n int) { doSignal(t, kind, msg, n) }

//go:noinline
func site1(t *rapid.T, kind, msg string, n int) { doSignal(t, kind, msg, n) }

//go:noinline
func site2(t *rapid.T, kind, msg string, n int) { doSignal(t, kind, msg, n) }

// site3 is an assertion helper that says so (t.Helper()) and checks two things: two failure sites at different
// lines of one function that is called from one line of the property.
//
//go:noinline
func site3(t *rapid.T, kind, msg string, n int) {
	t.Helper()
	if kind == "Fatalf" && (n/numSites)%2 == 0 {
		t.Fatalf("%s", msg)
	}
	if kind == "Fatalf" {
		t.Fatalf("%s", msg)
	}
	doSignal(t, kind, msg, n)
}

// runAction and maybeValue are failure sites whose names (and whose first closure) collide with internal
// function names of the library: a user is free to call a helper like that, and two failures raised at different
// lines of such a closure are two failure sites.
//
//go:noinline
func runAction(t *rapid.T, kind, msg string, n int) {
	func() {
		if kind == "panicString" && (n/numSites)%2 == 0 {
			panic(msg)
		}
		if kind == "panicString" {
			panic(msg)
		}
		doSignal(t, kind, msg, n)
	}()
}

//go:noinline
func maybeValue(t *rapid.T, kind, msg string, n int) {
	func() {
		if kind == "panicError" && (n/numSites)%2 == 0 {
			panic(&panicErr{msg})
		}
		if kind == "panicError" {
			panic(&panicErr{msg})
		}
		doSignal(t, kind, msg, n)
	}()
}

var (
	nilPtr  *int
	shortSl = []int{1, 2, 3}
	five    = 5
	zero    = 0
)

//go:noinline
func doSignal(t *rapid.T, kind, msg string, n int) {
	switch kind {
	case "Fatalf":
		t.Fatalf("%s", msg)
	case "Fatal":
		if msg == "" && n%2 == 0 {
			t.Fatal()
		} else {
			t.Fatal(msg)
		}
	case "FailNow":
		t.FailNow()
	case "Errorf":
		t.Errorf("%s", msg)
	case "Error":
		if msg == "" && n%2 == 0 {
			t.Error()
		} else {
			t.Error(msg)
		}
	case "Fail":
		t.Fail()
	case "panicString":
		panic(msg)
	case "panicError":
		panic(&panicErr{msg})
	case "panicCustom":
		panic(custPanic{n, msg})
	case "nilDeref":
		zero = *nilPtr
	case "indexOOR":
		zero = shortSl[five]
	case "divZero":
		five = five / zero
	default:
		panic("harness: unknown signal kind " + kind)
	}
}

var _ = errors.New

// ---- Custom ----------------------------------------------------------------------------------------

func (x *Interp) runCustom(s *GenSpec, subs map[*GenSpec]*rapid.Generator[any], t *rapid.T) any {
	if x.cur == nil || x.cur.Done {
		x.Begin(t) // used outside a property (Example): keep a record anyway
	}
	x.mu.Lock()
	sc := &scope{id: len(x.cur.scopes), kind: "custom", t: t, subs: subs}
	x.cur.scopes = append(x.cur.scopes, sc)
	x.mu.Unlock()
	x.ev(Event{K: "cstart", Scope: sc.id})
	normal := false
	defer func() { x.ev(Event{K: "cend", Scope: sc.id, Normal: normal}) }()
	x.exec(&frame{sc: sc, where: "custom"}, s.Body)
	normal = true
	cv := CustomVal{}
	for _, d := range sc.draws {
		cv.Specs = append(cv.Specs, d.Spec)
		cv.Vals = append(cv.Vals, d.Val)
	}
	return cv
}

// ---- Repeat ----------------------------------------------------------------------------------------

func (x *Interp) repeat(fr *frame, st *Stmt) {
	t := fr.sc.t
	hasInv := 0
	if st.HasInv {
		hasInv = 1
	}
	x.ev(Event{K: "rstart", Scope: fr.sc.id, ID: hasInv}) // a call of Repeat begins; ID tells whether it was given an invariant
	if st.Shared && st.SM == "" {
		// the actions map is built once and handed to Repeat by every invocation, like a map a user keeps in a
		// variable outside the property function
		sh := x.shared[st]
		if sh == nil {
			sh = &sharedActions{actions: map[string]func(*rapid.T){}}
			for _, a := range st.Actions {
				a := a
				sh.actions[a.Name] = func(at *rapid.T) { x.runAction(sh.fr, a, at) }
			}
			if st.HasInv {
				sh.actions[""] = func(at *rapid.T) { x.runInv(sh.fr, st, at) }
			}
			if x.shared == nil {
				x.shared = map[*Stmt]*sharedActions{}
			}
			x.shared[st] = sh
		}
		sh.fr = fr
		t.Repeat(sh.actions)
		return
	}
	actions := map[string]func(*rapid.T){}
	for _, a := range st.Actions {
		a := a
		actions[a.Name] = func(at *rapid.T) { x.runAction(fr, a, at) }
	}
	if st.HasInv {
		actions[""] = func(at *rapid.T) { x.runInv(fr, st, at) }
	}
	if st.SM != "" {
		for _, name := range []string{"a0", "a1", "a2", "a3"} {
			if actions[name] == nil {
				a := &Action{Name: name}
				actions[name] = func(at *rapid.T) { x.runAction(fr, a, at) }
			}
		}
		actions = smActions(st.SM, actions, func(name string) { x.ev(Event{K: "bogus", Name: name}) })
	}
	t.Repeat(actions)
}

type sharedActions struct {
	actions map[string]func(*rapid.T)
	fr      *frame
}

func (x *Interp) runAction(fr *frame, a *Action, at *rapid.T) {
	x.actCount++
	if x.actCount > x.MaxActions {
		x.Aborted = "Repeat called more than MaxActions actions in one invocation"
		panic(harnessAbort{x.Aborted})
	}
	x.ev(Event{K: "astart", Name: a.Name, Normal: at == fr.sc.t})
	// the library draws the action name from the property's T: it is part of what the invocation received
	committed := len(fr.sc.draws)
	pseudo := DrawRec{Label: "action", Text: fmt.Sprintf("%#v", a.Name), Canon: fmt.Sprintf("%q", a.Name), M: int64(len(a.Name)), Val: a.Name}
	fr.sc.draws = append(fr.sc.draws, pseudo)
	fr.sc.all = append(fr.sc.all, pseudo)
	normal := false
	all0 := len(fr.sc.all)
	defer func() {
		x.ev(Event{K: "aend", Name: a.Name, Normal: normal, ID: len(fr.sc.all) - all0})
		if !normal {
			// a skipped action is "not applicable": nothing it drew may influence what the program does later,
			// otherwise the program would not be a function of the draws that survive pruning
			fr.sc.draws = fr.sc.draws[:committed]
		}
	}()
	x.exec(&frame{sc: fr.sc, where: "action"}, a.Body)
	normal = true
}

func (x *Interp) runInv(fr *frame, st *Stmt, at *rapid.T) {
	x.ev(Event{K: "istart", Normal: at == fr.sc.t})
	normal := false
	defer func() { x.ev(Event{K: "iend", Normal: normal}) }()
	x.exec(&frame{sc: fr.sc, where: "inv"}, st.Inv)
	normal = true
}

// ---- ground truth ------------------------------------------------------------------------------------

func (inv *Invocation) finalize() {
	inv.Done = true
	inv.Draws = inv.scopes[0].draws
	inv.All = inv.scopes[0].all
	type flight struct {
		kind string // "" none, skip, fatal, panic
		ev   *Event
	}
	var p flight
	bodyLeft, bodyNormal := false, true
	anyAbnormal := false
	trailingSkips := 0
	var lastRepeatAbort bool
	for i := range inv.Events {
		e := &inv.Events[i]
		switch e.K {
		case "sig":
			inv.SigCount++
			inv.Msgs = append(inv.Msgs, e.Msg)
			if e.Class == "nonfatal" {
				inv.NFCount++
			} else {
				p = flight{e.Class, e}
			}
		case "skip":
			inv.Skips++
			p = flight{"skip", e}
		case "cend":
			if !e.Normal && p.kind == "skip" {
				p = flight{}
				inv.CRetries++
			}
		case "aend":
			if e.Normal {
				inv.Actions++
				trailingSkips = 0
			} else if p.kind == "skip" || p.kind == "" {
				// skipped by the action itself, or the library rejected one of its draws: swallowed by Repeat
				inv.ASkips++
				p = flight{}
				if e.ID == 0 {
					trailingSkips++ // nothing drawn: "skipped", retried without counting as a step
				} else {
					trailingSkips = 0
				}
			}
		case "bleave":
			bodyLeft = true
			bodyNormal = e.Normal
			if !e.Normal {
				anyAbnormal = true
				lastRepeatAbort = p.kind == "" && trailingSkips >= 100
				inv.LibAbort = p.kind == ""
			}
		case "cleave":
			if bodyLeft && e.Scope == 0 && !e.Normal {
				anyAbnormal = true
			}
		}
	}
	_ = bodyLeft
	inv.NVA = lastRepeatAbort
	inv.Falsified = inv.SigCount > 0 || inv.NVA
	if bodyNormal && p.kind != "" && p.kind != "skip" {
		// raised but not propagated: only cleanups can legitimately raise after a normal return
		if p.ev.Where != "cleanup" {
			inv.Swallowed = true
		}
	}
	switch {
	case anyAbnormal && (p.kind == "fatal" || p.kind == "panic"):
		inv.End = p.kind
		inv.Site = p.ev.Site
		inv.WinMsg = stripVary(p.ev.Msg)
		inv.WinKind = p.ev.Name
	case inv.NVA:
		inv.End = "nva"
		inv.Site = "NVA"
	case inv.NFCount > 0:
		inv.End = "nf"
		inv.Site = "NF"
		if anyAbnormal && p.kind == "skip" {
			inv.End = "nf+skip"
		} else if anyAbnormal {
			inv.End = "nf+lib"
		}
	case anyAbnormal && p.kind == "skip":
		inv.End = "skip"
	case anyAbnormal:
		inv.End = "lib"
	default:
		inv.End = "pass"
	}
}

// DrawCanon renders the draws of the property scope for comparisons between invocations.
func (inv *Invocation) DrawCanon() string {
	var b strings.Builder
	for _, d := range inv.Draws {
		fmt.Fprintf(&b, "%s=%s;", d.Label, d.Canon)
	}
	return b.String()
}

// Outcome is a comparable summary of an invocation.
func (inv *Invocation) Outcome() string {
	if inv.outcome == "" {
		if inv.Compacted {
			return fmt.Sprintf("%s|%s|%s|<draws #%x>", inv.End, inv.Site, inv.WinMsg, inv.OutHash)
		}
		inv.outcome = fmt.Sprintf("%s|%s|%s|%s", inv.End, inv.Site, inv.WinMsg, inv.DrawCanon())
		inv.OutHash = hash64([]byte(inv.outcome))
	}
	return inv.outcome
}

// compact drops the bulky parts of a finished invocation (long runs: hundreds of thousands of invocations).
func (inv *Invocation) compact() {
	inv.Outcome()
	inv.outcome = ""
	inv.Compacted = true
	inv.Events, inv.scopes, inv.Draws, inv.All, inv.Msgs = nil, nil, nil, nil, nil
}

// Same reports whether two invocations received the same committed draws and ended the same way.
func (inv *Invocation) Same(o *Invocation) bool {
	inv.Outcome()
	o.Outcome()
	return inv.OutHash == o.OutHash
}
