package vh

import (
	"fmt"
	"os"
	"regexp"
	"strconv"
	"strings"

	"vh/drv"
)

// C05 - minimization keeps the same failure and only ever gets smaller.

type c05 struct{}

func init() { register(c05{}) }

func (c05) ID() string       { return "C05" }
func (c05) NewCase() any     { return &CheckCase{} }
func (c05) Cases(c *Ctx) int { return c.Pick(1000, 15000) }

func (c05) Gen(dt *drv.T, c *Ctx) any {
	cs := &CheckCase{}
	vis := chance(dt, "debugvis", 10)
	pc := ProgCfg{
		Gen:      GenCfg{Depth: c.Pick(1, 2), RejectHeavy: chance(dt, "rejheavy", 40), SmallInts: true, Custom: !vis, CustomStmts: true},
		MaxStmts: c.Pick(6, 8), Repeat: true, Cleanups: true, Skips: false, SigPct: 95,
		SigKinds: append(append([]string{"Errorf"}, fatalKinds...), panicKinds...),
	}
	if vis {
		// the visualisation renders one image per accepted step, each as large as the recording: with unbounded nested
		// collections (recordings of 50,000 words, a thousand steps) one case kept a shard busy for over an hour
		pc.Gen.LenCap = 6
	}
	cs.Prog = GenProg(dt, pc)
	// several failure sites guarded by different conditions on different draws
	extra := drv.IntRange(1, 3).Draw(dt, "extrasites")
	for i := 0; i < extra; i++ {
		cs.Prog.Body = append(cs.Prog.Body, &Stmt{Op: "if", Cond: genCond(dt), Body: []*Stmt{genSig(dt, pc.SigKinds)}})
	}
	if chance(dt, "namesakes", 22) {
		// two failure sites at different lines of one closure of a helper that is named like a library internal
		kind, a, b := "panicString", 4, 10
		switch pick(dt, "namesake2", 0, 1, 2, 2) {
		case 1:
			kind, a, b = "panicError", 5, 11
		case 2:
			// two Fatalf lines of one assertion helper that calls t.Helper()
			kind, a, b = "Fatalf", 3, 9
		}
		cs.Prog.Body = append(cs.Prog.Body,
			&Stmt{Op: "if", Cond: genCond(dt), Body: []*Stmt{{Op: "sig", Kind: kind, Site: a}}},
			&Stmt{Op: "if", Cond: genCond(dt), Body: []*Stmt{{Op: "sig", Kind: kind, Site: b}}})
	}
	cs.Cfg = genCheckCfg(dt, "TestC05", 150)
	cs.Cfg.DebugVis = vis
	genShrinkSetting(dt, cs)
	if cs.Cfg.ShrinkNS == 3e9 {
		cs.Cfg.ShrinkNS = int64(c.Pick(3, 100)) * 1e8 // the clauses checked here hold at every cut point
	}
	if vis {
		// the library renders the visualisation when minimization is over: one PNG image per 64-bit word of every
		// accepted recording. Ten seconds of minimizing a state machine (thousands of accepted steps of hundreds of
		// words each) kept one thorough shard rendering for more than 98 minutes, twice. The clauses checked with the
		// visualisation hold at every cut point, so these cases get a short minimization and short state machines.
		if cs.Cfg.ShrinkNS > 2e8 {
			cs.Cfg.ShrinkNS = 2e8
		}
		if cs.Cfg.Steps == 0 || cs.Cfg.Steps > 8 {
			cs.Cfg.Steps = 8
		}
	}
	return cs
}

var reAlt = regexp.MustCompile(`alt="(0x[0-9a-f]+)"`)

// parseVis returns the recordings shown by the debug visualisation: the initial one and every accepted step.
func parseVis(path string) ([][]uint64, error) {
	b, err := os.ReadFile(path)
	if err != nil {
		return nil, err
	}
	parts := strings.Split(string(b), `<div class="vis">`)
	var out [][]uint64
	for _, p := range parts[1:] {
		var words []uint64
		for _, m := range reAlt.FindAllStringSubmatch(p, -1) {
			u, err := strconv.ParseUint(m[1], 0, 64)
			if err != nil {
				return nil, err
			}
			words = append(words, u)
		}
		out = append(out, words)
	}
	return out, nil
}

// shortlex compares word sequences by length, then lexicographically.
func shortlex(a, b []uint64) int {
	if len(a) != len(b) {
		if len(a) < len(b) {
			return -1
		}
		return 1
	}
	for i := range a {
		if a[i] != b[i] {
			if a[i] < b[i] {
				return -1
			}
			return 1
		}
	}
	return 0
}

func failFileWords() ([]uint64, bool) {
	files := FailFiles()
	if len(files) != 1 {
		return nil, false
	}
	_, _, w, err := ParseFailFile(files[0])
	if err != nil {
		return nil, false
	}
	return w, true
}

func (c05) Run(c *Ctx, csAny any) Outcome {
	cs := csAny.(*CheckCase)
	out := Outcome{}
	dir := EnterCaseDir()
	defer LeaveCaseDir(dir)
	r := runProg(cs.Cfg, cs.Prog)
	if r.X.Aborted != "" {
		out.Viol = violf("C05:loops", "%s", r.X.Aborted)
		return out
	}
	if r.Obs.Escaped != nil {
		if cs.Cfg.DebugVis {
			out.Classes = append(out.Classes, "debugvis-panicked")
			return out
		}
		out.Viol = violf("C05:panic-escaped-check", "a panic escaped rapid.Check: %v", r.Obs.Escaped)
		return out
	}
	if r.FirstBad < 0 || (r.Rep.Kind != "failed" && r.Rep.Kind != "panic" && r.Rep.Kind != "flaky") {
		out.Classes = append(out.Classes, "no-reported-failure")
		return out
	}
	if r.Obs.Dur.Seconds() > 0.5 {
		out.Classes = append(out.Classes, "slow>0.5s")
	}
	found, last := r.X.Log[r.FirstBad], r.Last
	// how many distinct failure sites did the candidates tried during minimization run into?
	sites := map[string]bool{}
	for _, inv := range r.X.Log {
		if inv.Falsified && inv.Site != "" {
			sites[inv.Site] = true
		}
	}
	cut := cs.Cfg.ShrinkNS > 0 && cs.Cfg.ShrinkNS < 1e9
	out.Classes = append(out.Classes, fmt.Sprintf("sites-seen-%d", min(len(sites), 4)))
	if cut {
		out.Classes = append(out.Classes, "cut-configured")
	}
	if len(r.X.Log) > 1000000 {
		out.Viol = violf("C05:too-many-invocations", "%d invocations of the property in one Check", len(r.X.Log))
		return out
	}

	// (a)/(e) the failure site never moves
	if found.Site != last.Site {
		if os.Getenv("VERIF_C05_DUMP") != "" {
			fmt.Fprintf(os.Stderr, "==== C05 site-moved dump: %d invocations, dur %v, report %q %q\n", len(r.X.Log), r.Obs.Dur, r.Rep.Kind, r.Rep.Msg)
			for i, inv := range r.X.Log {
				fmt.Fprintf(os.Stderr, "  inv %d: %.150s\n", i, inv.Outcome())
			}
			for _, m := range r.Obs.Msgs {
				fmt.Fprintf(os.Stderr, "  TB %s: %.200s\n", m.Kind, firstLine(m.Text))
			}
		}
		out.NonTrivial = true
		out.Viol = violf("C05:site-moved", "the failure was found at site [%s] (%s) but the minimized test case fails at site [%s] (%s); %d sites seen during minimization",
			found.Site, found.WinMsg, last.Site, last.WinMsg, len(sites))
		return out
	}

	wordsFull, haveFull := failFileWords()
	shrunk := false

	// (c) every accepted step is strictly smaller, and the last one is what is reported
	if cs.Cfg.DebugVis {
		steps, err := parseVis("vis-" + cs.Cfg.Name + ".html")
		if err == nil && len(steps) > 0 {
			out.Classes = append(out.Classes, "debugvis-parsed")
			for i := 1; i < len(steps); i++ {
				if shortlex(steps[i], steps[i-1]) >= 0 {
					out.Viol = violf("C05:step-not-smaller", "accepted minimization step %d %x is not smaller than its predecessor %x", i, steps[i], steps[i-1])
					return out
				}
			}
			if len(steps) > 1 {
				shrunk = true
			}
			if haveFull && shortlex(steps[len(steps)-1], wordsFull) != 0 {
				out.Viol = violf("C05:reported-not-last-accepted", "the last accepted recording is %x but the fail file holds %x", steps[len(steps)-1], wordsFull)
				return out
			}
		}
	}

	// (b) never larger than the unminimized recording of the same (program, seed)
	if haveFull && cs.Cfg.ShrinkNS != 0 {
		for _, f := range FailFiles() {
			_ = removeFile(f)
		}
		cfg0 := cs.Cfg
		cfg0.ShrinkNS = 0
		cfg0.DebugVis = false
		r0 := runProg(cfg0, stripSleep(cs.Prog))
		if words0, ok := failFileWords(); ok && r0.FirstBad == r.FirstBad {
			out.Classes = append(out.Classes, "compared-with-unminimized")
			cmp := shortlex(wordsFull, words0)
			if cmp > 0 {
				out.Viol = violf("C05:minimized-larger", "minimized recording %x is larger than the unminimized one %x", wordsFull, words0)
				return out
			}
			if cmp < 0 {
				shrunk = true
			}
		}
	}
	if shrunk {
		out.Classes = append(out.Classes, "accepted-steps>=1")
	}
	out.NonTrivial = len(sites) >= 2 && shrunk
	return out
}

func stripSleep(p *Prog) *Prog {
	if len(p.Body) > 0 && p.Body[0].Op == "sleep" {
		return &Prog{Body: p.Body[1:]}
	}
	return p
}
