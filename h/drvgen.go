package vh

import (
	"fmt"
	"math"
	"strings"

	"vh/drv"
)

// Driver-side generators for GenSpec and Prog terms. Every random choice goes through the driver.

// GenCfg selects the shape of generated generator expressions.
type GenCfg struct {
	Depth             int
	Hostile           bool // parameters at type extremes, empty ranges, ...
	RejectHeavy       bool // favour rejection based nodes over small domains (C01/C04)
	Custom            bool // allow Custom nodes
	Make              bool // allow Make nodes
	MakeFlat          bool // allow Make nodes of pointer-free types only (their Go-syntax text is the same in every run)
	BigRegexp         bool // allow regexps with negated classes / dots (large rune tables)
	CustomStmts       bool // Custom bodies may skip, signal, register cleanups, probe contexts
	SmallInts         bool // leaf integers from small ranges (values that shrink visibly)
	LenCap            int  // > 0: collections never have an unbounded maximum length (keeps recordings of nested collections small)
	CustomNonFatal    bool // Custom bodies may signal non-fatally (verdict-only checks)
	CleanupBeforeSkip bool // Custom bodies register a (non-signalling) cleanup before the part that may skip (C10)
	PredSignals       bool // Filter predicates may raise a fatal signal / panic on the T of the property
}

func pick[T any](dt *drv.T, label string, xs ...T) T {
	return drv.SampledFrom(xs).Draw(dt, label)
}

// chance is true with probability of about pct percent. The driver's integer generators are biased towards
// small values, so the decision is built from unbiased Bool draws; it shrinks towards false.
func chance(dt *drv.T, label string, pct int) bool {
	v := 0
	for i := 0; i < 7; i++ {
		v <<= 1
		if drv.Bool().Draw(dt, label) {
			v |= 1
		}
	}
	return (127-v)*100/128 >= 100-pct
}

func sPool(ik string) []int64 {
	lo, hi := sBounds(ik)
	p := []int64{lo, lo + 1, lo + 2, hi, hi - 1, hi - 2, 0, 1, -1, 2, -2, 3, 7, -8, 100, -100}
	for j := 1; j < intBits(ik)-1; j++ {
		v := int64(1) << j
		p = append(p, v, v-1, v+1, -v, -v+1, -v-1)
	}
	var out []int64
	for _, v := range p {
		if v >= lo && v <= hi {
			out = append(out, v)
		}
	}
	return out
}

func uPool(ik string) []uint64 {
	hi := uMax(ik)
	p := []uint64{0, 1, 2, 3, 7, 100, hi, hi - 1, hi - 2}
	for j := 1; j < intBits(ik); j++ {
		v := uint64(1) << j
		p = append(p, v, v-1, v+1)
	}
	var out []uint64
	for _, v := range p {
		if v <= hi {
			out = append(out, v)
		}
	}
	return out
}

func genSBound(dt *drv.T, ik string, label string) int64 {
	lo, hi := sBounds(ik)
	switch pick(dt, label+"how", "pool", "pool", "small", "uniform") {
	case "pool":
		return drv.SampledFrom(sPool(ik)).Draw(dt, label)
	case "small":
		v := drv.Int64Range(-20, 20).Draw(dt, label)
		if v < lo {
			v = lo
		}
		if v > hi {
			v = hi
		}
		return v
	}
	return drv.Int64Range(lo, hi).Draw(dt, label)
}

func genUBound(dt *drv.T, ik string, label string) uint64 {
	hi := uMax(ik)
	switch pick(dt, label+"how", "pool", "pool", "small", "uniform") {
	case "pool":
		return drv.SampledFrom(uPool(ik)).Draw(dt, label)
	case "small":
		v := drv.Uint64Range(0, 40).Draw(dt, label)
		if v > hi {
			v = hi
		}
		return v
	}
	return drv.Uint64Range(0, hi).Draw(dt, label)
}

func genIntSpec(dt *drv.T, cfg GenCfg) *GenSpec {
	s := &GenSpec{K: "int"}
	if cfg.SmallInts && !cfg.Hostile {
		s.IK = pick(dt, "ik", "Int", "Int8", "Int64", "Uint8", "Uint16", "Uint", "Byte", "Int32")
		s.Mode = "range"
		if intSigned(s.IK) {
			s.SA = drv.Int64Range(-20, 5).Draw(dt, "sa")
			s.SB = s.SA + drv.Int64Range(0, 100).Draw(dt, "span")
		} else {
			s.UA = drv.Uint64Range(0, 10).Draw(dt, "ua")
			s.UB = s.UA + drv.Uint64Range(0, 100).Draw(dt, "span")
		}
		if chance(dt, "full", 25) {
			s.Mode = ""
			s.SA, s.SB, s.UA, s.UB = 0, 0, 0, 0
		}
		return s
	}
	s.IK = drv.SampledFrom(intKinds).Draw(dt, "ik")
	s.Mode = pick(dt, "mode", "", "min", "max", "range", "range")
	if intSigned(s.IK) {
		a, b := genSBound(dt, s.IK, "a"), genSBound(dt, s.IK, "b")
		if a > b {
			a, b = b, a
		}
		if s.Mode == "range" && chance(dt, "point", 8) {
			b = a
		}
		switch s.Mode {
		case "min":
			s.SA = a
		case "max":
			s.SB = b
		case "range":
			s.SA, s.SB = a, b
		}
	} else {
		a, b := genUBound(dt, s.IK, "a"), genUBound(dt, s.IK, "b")
		if a > b {
			a, b = b, a
		}
		if s.Mode == "range" && chance(dt, "point", 8) {
			b = a
		}
		switch s.Mode {
		case "min":
			s.UA = a
		case "max":
			s.UB = b
		case "range":
			s.UA, s.UB = a, b
		}
	}
	return s
}

var f64Pool = []float64{
	0, math.Copysign(0, -1), math.SmallestNonzeroFloat64, -math.SmallestNonzeroFloat64,
	2 * math.SmallestNonzeroFloat64, 0x1p-1022, 0x1p-1023, math.Nextafter(0x1p-1022, 0), math.MaxFloat64, -math.MaxFloat64,
	math.Nextafter(math.MaxFloat64, 0), math.Inf(1), math.Inf(-1), 1, -1, math.Nextafter(1, 2), math.Nextafter(1, 0),
	math.Nextafter(-1, -2), 0.5, 2, 3, 0x1p52, 0x1p53, 0x1p53 + 2, 0x1p63, -0x1p63, 1e-300, 1e300, 0.1, -0.1, 1.5, 255, 256,
	math.SmallestNonzeroFloat32, math.MaxFloat32, -math.MaxFloat32, 0x1p-126, 0x1p-149, float64(math.Nextafter32(1, 2)),
	float64(math.Nextafter32(math.MaxFloat32, 0)), 0x1p23, 0x1p24, 0x1p-127,
}

func genFloatBound(dt *drv.T, bits int, label string) float64 {
	var f float64
	switch pick(dt, label+"how", "pool", "pool", "bits", "small", "adjacent") {
	case "pool":
		f = drv.SampledFrom(f64Pool).Draw(dt, label)
	case "bits":
		for {
			f = math.Float64frombits(drv.Uint64().Draw(dt, label))
			if f == f {
				break
			}
			f = 1
			break
		}
	case "small":
		f = float64(drv.IntRange(-1000, 1000).Draw(dt, label)) / float64(pick(dt, label+"div", 1, 2, 3, 10, 1024))
	case "adjacent":
		base := drv.SampledFrom(f64Pool).Draw(dt, label)
		n := drv.IntRange(1, 3).Draw(dt, label+"n")
		dir := pick(dt, label+"dir", math.Inf(1), math.Inf(-1))
		f = base
		for i := 0; i < n; i++ {
			if bits == 32 {
				f = float64(math.Nextafter32(float32(f), float32(dir)))
			} else {
				f = math.Nextafter(f, dir)
			}
		}
	}
	if bits == 32 {
		f = float64(float32(f)) // may become +-Inf or 0: both are legal bounds
	}
	if f != f {
		f = 0
	}
	return f
}

func genFloatSpec(dt *drv.T, cfg GenCfg) *GenSpec {
	s := &GenSpec{K: "float", Bits: pick(dt, "fbits", 32, 64)}
	if !cfg.Hostile {
		s.Mode = pick(dt, "mode", "", "range")
		if s.Mode == "range" {
			a := float64(drv.IntRange(-50, 50).Draw(dt, "fa"))
			b := a + float64(drv.IntRange(0, 1000).Draw(dt, "fspan"))/8
			s.UA, s.UB = math.Float64bits(a), math.Float64bits(b)
		}
		return s
	}
	s.Mode = pick(dt, "mode", "", "min", "max", "range", "range", "range")
	a, b := genFloatBound(dt, s.Bits, "fa"), genFloatBound(dt, s.Bits, "fb")
	if a > b {
		a, b = b, a
	}
	if s.Mode == "range" && chance(dt, "point", 8) {
		b = a
	}
	switch s.Mode {
	case "min":
		if math.IsInf(a, 1) { // Float*Min(+Inf) is an invalid range by construction
			a = math.MaxFloat64
			if s.Bits == 32 {
				a = math.MaxFloat32
			}
		}
		s.UA = math.Float64bits(a)
	case "max":
		if math.IsInf(b, -1) {
			b = -math.MaxFloat64
			if s.Bits == 32 {
				b = -math.MaxFloat32
			}
		}
		s.UB = math.Float64bits(b)
	case "range":
		s.UA, s.UB = math.Float64bits(a), math.Float64bits(b)
	}
	return s
}

var tableNames = []string{"Lu", "Ll", "Nd", "P", "Sm", "Zs", "Greek", "Cyrillic", "Han", "Cc", "Mn", "Nl", "Sc", "Latin"}

var runePool = []int32{'a', 'b', 'z', 'A', '0', ' ', '\n', '\x00', '\x7f', 0x80, 0xff, 0x100, 0x7ff, 0x800, 0xffff, 0x10000, 0x10ffff, 0xfffd, 0xd7ff, 0xe000, 'é', 'Ⱥ', 'ß', '世', '🙂'}
var badRunes = []int32{0xd800, 0xdfff, 0x110000, -1, math.MaxInt32}

func genRuneSpec(dt *drv.T, cfg GenCfg) *GenSpec {
	if chance(dt, "defaultrune", 35) {
		return &GenSpec{K: "rune"}
	}
	s := &GenSpec{K: "runefrom"}
	nr := drv.IntRange(0, 5).Draw(dt, "nrunes")
	for i := 0; i < nr; i++ {
		if cfg.Hostile && chance(dt, "badrune", 15) {
			s.Runes = append(s.Runes, pick(dt, "br", badRunes...))
		} else {
			s.Runes = append(s.Runes, pick(dt, "r", runePool...))
		}
	}
	nt := drv.IntRange(0, 2).Draw(dt, "ntables")
	if nr == 0 && nt == 0 {
		nt = 1
	}
	for i := 0; i < nt; i++ {
		s.Tables = append(s.Tables, pick(dt, "table", tableNames...))
	}
	return s
}

// genGenericRuneSpec: a rune generator that is not Rune/RuneFrom, so it can hand StringOf values that are not
// valid runes. At least one valid rune is always possible.
func genGenericRuneSpec(dt *drv.T) *GenSpec {
	if drv.Bool().Draw(dt, "runeint") {
		s := &GenSpec{K: "runeint"}
		switch pick(dt, "rirange", "neg", "byte", "surrogate", "top", "wide") {
		case "neg":
			s.SA, s.SB = -int64(drv.IntRange(1, 300).Draw(dt, "lo")), int64(pick(dt, "hi", 'b', 'z', 0x7f, 0xff, 0x100))
		case "byte":
			s.SA, s.SB = -128, 127
		case "surrogate":
			s.SA, s.SB = 0xd7ff-int64(drv.IntRange(0, 3).Draw(dt, "lo")), 0xd800+int64(drv.IntRange(0, 0x801).Draw(dt, "hi"))
		case "top":
			s.SA, s.SB = 0x10ffff-int64(drv.IntRange(0, 3).Draw(dt, "lo")), 0x10ffff+int64(drv.IntRange(1, 20).Draw(dt, "hi"))
		default:
			s.SA, s.SB = math.MinInt32, math.MaxInt32
			if drv.Bool().Draw(dt, "small") {
				s.SA, s.SB = -2, 2
			}
		}
		return s
	}
	s := &GenSpec{K: "runesampled"}
	s.Runes = append(s.Runes, pick(dt, "r", runePool...))
	n := drv.IntRange(1, 4).Draw(dt, "nrunes")
	for i := 0; i < n; i++ {
		if drv.Bool().Draw(dt, "bad") {
			s.Runes = append(s.Runes, pick(dt, "br", badRunes...), -int32(drv.IntRange(1, 300).Draw(dt, "neg")))
		} else {
			s.Runes = append(s.Runes, pick(dt, "r", runePool...))
		}
	}
	return s
}

func genLenBounds(dt *drv.T, hostile bool, maxMax int) (int, int) {
	switch pick(dt, "lenhow", "none", "none", "minonly", "maxonly", "both", "both", "equal", "zero") {
	case "minonly":
		return drv.IntRange(0, 6).Draw(dt, "min"), -1
	case "maxonly":
		return -1, drv.IntRange(0, maxMax).Draw(dt, "max")
	case "both":
		a := drv.IntRange(0, 6).Draw(dt, "min")
		return a, a + drv.IntRange(0, maxMax).Draw(dt, "span")
	case "equal":
		a := drv.IntRange(0, 8).Draw(dt, "min")
		return a, a
	case "zero":
		if hostile {
			return pick(dt, "zmin", -1, 0), 0
		}
	}
	return -1, -1
}

var regexpPool = []string{
	`\s*(\d+)(\w)\s*`, `/`, "^Revision\t+: ([0-9a-fA-F]+)", `^u([0-9]+)(be|le|he)?$`, `^[A-Z]{2}\d{2}[A-Z\d]{1,30}$`,
	`(#include) (\S*)`, `:(?P<k>[a-zA-Z_]+)`, `^\d{6}(?:\s*,\s*\d{6})*$`, "\"[a-z]*\":null", ",+", `thi[sng]+`,
	`[a-zA-Z_\$][a-zA-Z_0-9]*`, `([\d\.]+)\s*out\s*of\s*([\d\.]+)`, `[0-9]{14}_[a-z0-9-]+`, `\s{2,}|[\r\n]`, `\w\s+\w`,
	`(\d+)x(\d+)`, `^\.\r\n$`, `\+OK (\d+) (\d+)\r\n`, "^[0-9]{5}", `<int>([0-9]+)</int>`, `(?i)abc`, `(?i)ǅ+`, `a{0}`, `a{3}b{2,4}`,
	`^$`, ``, `\bfoo\b`, `a\b `, `(?m)^a$`, `x*?y+?z??`, `[[:alpha:]]+`, `\pL\p{Greek}`, `[α-ω]{2}`, `(a|b|c)(d|e)`, `(|a)b`, `a|`,
	`\x{10FFFF}`, `[\x00-\x1f]`, `é{1,3}`, `(?i)straße`, `\Aab\z`, `[a-c]{0,2}[x-z]?`,
	// families of character classes whose printed forms share a long prefix
	`\p{Greek}{2}`, `[\p{Greek}\p{Han}]{2}`, `[\pL\pN_]{1,3}`, `[\pL\pM\pN_]{1,3}`, `\p{Latin}+`, `[\p{Latin}\p{Cyrillic}]+`, `[\p{Lu}]x`, `[\p{Lu}\p{Lt}]x`,
}

var bigRegexpPool = []string{
	`.*\[(?P<percent>.+)%.*\].*`, `(.+?)(\[.*?\])?`, `[^a-z0-9-]+`, `(?s).`, `[^\\/?]+`, `\S+`, `\W`, `\D\d`, `[^\x00-\x{10FFFE}]`, `(?s).{0,3}`, `\PL`,
	// classes that contain the surrogate range but not U+FFFD: a surrogate cannot be written to a string, such a pick has to be rejected
	`[^\x{FFFD}]`, `[\x{D000}-\x{E000}]`, `[\x{D7FF}-\x{E000}]{1,3}`, `[^\x{FFFD}a-z]x`, `[\x{D7FB}-\x{D802}]+`,
}

func genRegexp(dt *drv.T, cfg GenCfg) string {
	if chance(dt, "repool", 60) {
		if cfg.BigRegexp && chance(dt, "bigre", 20) {
			return pick(dt, "re", bigRegexpPool...)
		}
		return pick(dt, "re", regexpPool...)
	}
	return genRe(dt, 3)
}

func genRe(dt *drv.T, depth int) string {
	atoms := []string{"a", "b", "xy", `\d`, `\w`, `\s`, "[a-c]", "[0-9a-f]", "é", "世", `\.`, "[A-Z]", "(?i:k)", " ", "-"}
	if depth <= 0 {
		return pick(dt, "atom", atoms...)
	}
	switch pick(dt, "rek", "atom", "atom", "cat", "cat", "alt", "star", "plus", "quest", "rep", "group", "anchor") {
	case "cat":
		n := drv.IntRange(2, 3).Draw(dt, "ncat")
		var b strings.Builder
		for i := 0; i < n; i++ {
			b.WriteString(genRe(dt, depth-1))
		}
		return b.String()
	case "alt":
		return "(?:" + genRe(dt, depth-1) + "|" + genRe(dt, depth-1) + ")"
	case "star":
		return "(?:" + genRe(dt, depth-1) + ")*"
	case "plus":
		return "(?:" + genRe(dt, depth-1) + ")+"
	case "quest":
		return "(?:" + genRe(dt, depth-1) + ")?"
	case "rep":
		a := drv.IntRange(0, 3).Draw(dt, "repmin")
		b := a + drv.IntRange(0, 3).Draw(dt, "repspan")
		return fmt.Sprintf("(?:%s){%d,%d}", genRe(dt, depth-1), a, b)
	case "group":
		return "(" + genRe(dt, depth-1) + ")"
	case "anchor":
		return pick(dt, "anc", "^", `\b`, `\A`) + genRe(dt, depth-1) + pick(dt, "anc2", "$", `\b`, `\z`, "")
	}
	return pick(dt, "atom", atoms...)
}

// genScalarSpec generates a generator of hashable scalar values (usable as map keys / distinct elements).
func genScalarSpec(dt *drv.T, cfg GenCfg) *GenSpec {
	switch pick(dt, "scalar", "int", "int", "int", "float", "bool", "rune", "sampled", "just", "string") {
	case "float":
		return genFloatSpec(dt, cfg)
	case "bool":
		return &GenSpec{K: "bool"}
	case "rune":
		return genRuneSpec(dt, cfg)
	case "sampled":
		return &GenSpec{K: "sampled", N: drv.IntRange(1, 9).Draw(dt, "n")}
	case "just":
		return &GenSpec{K: "just", N: drv.IntRange(0, 9).Draw(dt, "n")}
	case "string":
		return genStringSpec(dt, cfg)
	}
	return genIntSpec(dt, cfg)
}

func genStringSpec(dt *drv.T, cfg GenCfg) *GenSpec {
	s := &GenSpec{K: "string", MaxLen: -1, Short: chance(dt, "short", 50)}
	s.Min, s.Max = genLenBounds(dt, cfg.Hostile, 12)
	if chance(dt, "ownrunes", 50) {
		s.Sub = []*GenSpec{genRuneSpec(dt, cfg)}
		if chance(dt, "genericrunes", 25) {
			s.Sub[0] = genGenericRuneSpec(dt)
		}
	}
	if chance(dt, "maxlen", 40) || cfg.RejectHeavy && chance(dt, "maxlen2", 50) {
		lo := 0
		if s.Max > 0 {
			lo = s.Max // precondition: maxLen >= maxRunes
		}
		s.MaxLen = lo + drv.IntRange(0, 6).Draw(dt, "maxlenv")
	}
	return s
}

func genKeyFn(dt *drv.T, s *GenSpec, elemScalar bool) {
	if elemScalar && chance(dt, "idkey", 50) {
		s.Fn = "id"
		return
	}
	s.Fn = "mod"
	s.FM = int64(drv.IntRange(1, 6).Draw(dt, "keymod"))
}

func isScalarSpec(s *GenSpec) bool {
	switch s.K {
	case "int", "float", "bool", "rune", "runefrom", "sampled", "just", "string", "strmatch":
		return true
	}
	return false
}

func genPred(dt *drv.T, s *GenSpec) {
	switch pick(dt, "pred", "mod", "mod", "ge", "le", "always", "never") {
	case "mod":
		s.Fn = "mod"
		s.FM = int64(drv.IntRange(1, 8).Draw(dt, "pm"))
		s.FC = int64(drv.IntRange(0, int(s.FM)-1).Draw(dt, "pc"))
	case "ge":
		s.Fn = "ge"
		s.FC = int64(drv.IntRange(-3, 40).Draw(dt, "pc"))
	case "le":
		s.Fn = "le"
		s.FC = int64(drv.IntRange(-3, 40).Draw(dt, "pc"))
	case "never":
		s.Fn = "never"
	default:
		s.Fn = "always"
	}
}

func capLenOf(cfg GenCfg, min, max int) (int, int) {
	if cfg.LenCap > 0 && max < 0 {
		if min > 0 {
			return min, min + cfg.LenCap
		}
		return min, cfg.LenCap
	}
	return min, max
}

func capLen(cfg GenCfg, dt *drv.T, maxMax int) (int, int) {
	min, max := genLenBounds(dt, cfg.Hostile, maxMax)
	return capLenOf(cfg, min, max)
}

// GenGenSpec generates a generator expression.
func GenGenSpec(dt *drv.T, cfg GenCfg) *GenSpec {
	if cfg.Depth <= 0 {
		return genScalarSpec(dt, cfg)
	}
	sub := cfg
	sub.Depth--
	menu := []string{"scalar", "scalar", "slice", "slice", "map", "mapvalues", "string", "strmatch", "bytesmatch", "perm", "oneof", "ptr", "deferred", "mapped", "filter", "filter"}
	if cfg.RejectHeavy {
		menu = append(menu, "distinct", "distinct", "distinct", "map", "filter", "string")
		if chance(dt, "bigdistinct", 4) {
			// many distinct elements out of a domain that is only a little larger: long runs of rejected duplicates, and
			// every now and then a draw that gives up (the one place where the usual cap on lengths is not applied)
			n := drv.IntRange(16, 28).Draw(dt, "bign")
			return &GenSpec{K: "slice", Min: n, Max: -1, Fn: "id", Sub: []*GenSpec{{K: "int", IK: "Int", Mode: "range", SA: 0, SB: int64(n + n/4)}}}
		}
	}
	if cfg.Custom {
		menu = append(menu, "custom", "custom")
	}
	if cfg.Make || cfg.MakeFlat {
		menu = append(menu, "make")
		if cfg.RejectHeavy {
			menu = append(menu, "makemap")
		}
	}
	switch pick(dt, "node", menu...) {
	case "slice", "distinct":
		s := &GenSpec{K: "slice", Short: chance(dt, "short", 50)}
		s.Min, s.Max = capLen(cfg, dt, 8)
		s.Sub = []*GenSpec{GenGenSpec(dt, sub)}
		if chance(dt, "distinct", 40) || cfg.RejectHeavy {
			genKeyFn(dt, s, isScalarSpec(s.Sub[0]))
		}
		return s
	case "map":
		s := &GenSpec{K: "map", Short: chance(dt, "short", 50)}
		s.Min, s.Max = capLen(cfg, dt, 6)
		s.Sub = []*GenSpec{genScalarSpec(dt, sub), GenGenSpec(dt, sub)}
		return s
	case "mapvalues":
		s := &GenSpec{K: "mapvalues", Short: chance(dt, "short", 50)}
		s.Min, s.Max = capLen(cfg, dt, 6)
		s.Sub = []*GenSpec{GenGenSpec(dt, sub)}
		genKeyFn(dt, s, isScalarSpec(s.Sub[0]))
		return s
	case "string":
		return genStringSpec(dt, cfg)
	case "strmatch":
		return &GenSpec{K: "strmatch", Re: genRegexp(dt, cfg)}
	case "bytesmatch":
		return &GenSpec{K: "bytesmatch", Re: genRegexp(dt, cfg)}
	case "perm":
		return &GenSpec{K: "perm", N: drv.IntRange(0, 7).Draw(dt, "n")}
	case "oneof":
		n := drv.IntRange(1, 3).Draw(dt, "nalt")
		s := &GenSpec{K: "oneof"}
		for i := 0; i < n; i++ {
			s.Sub = append(s.Sub, GenGenSpec(dt, sub))
		}
		return s
	case "ptr":
		return &GenSpec{K: "ptr", AllowNil: drv.Bool().Draw(dt, "allownil"), Sub: []*GenSpec{GenGenSpec(dt, sub)}}
	case "deferred":
		return &GenSpec{K: "deferred", Sub: []*GenSpec{GenGenSpec(dt, sub)}}
	case "mapped":
		s := &GenSpec{K: "mapped", Sub: []*GenSpec{GenGenSpec(dt, sub)}}
		if cfg.PredSignals && chance(dt, "mapsig", 15) {
			// the mapping function raises a failure for some of its arguments
			s.FM = int64(drv.IntRange(2, 9).Draw(dt, "sm"))
			s.FC = int64(drv.IntRange(0, int(s.FM)-1).Draw(dt, "sc"))
			s.SigKind = pick(dt, "sigkind", hardSigKinds...)
			s.SigSite = drv.IntRange(0, 11).Draw(dt, "site")
		}
		return s
	case "filter":
		s := &GenSpec{K: "filter", Sub: []*GenSpec{GenGenSpec(dt, sub)}}
		genPred(dt, s)
		if cfg.PredSignals && chance(dt, "predsig", 20) {
			s.Fn = "sig"
			s.FM = int64(drv.IntRange(2, 9).Draw(dt, "sm"))
			s.FC = int64(drv.IntRange(0, int(s.FM)-1).Draw(dt, "sc"))
			s.SigKind = pick(dt, "sigkind", hardSigKinds...)
			s.SigSite = drv.IntRange(0, 11).Draw(dt, "site")
		}
		return s
	case "custom":
		return genCustomSpec(dt, sub)
	case "make":
		if cfg.MakeFlat && !cfg.Make {
			return &GenSpec{K: "make", Type: pick(dt, "mktype", makeFlatTypeNames...)}
		}
		return &GenSpec{K: "make", Type: pick(dt, "mktype", makeTypeNames...)}
	case "makemap":
		// maps over a two-valued key type: most draws contain rejected duplicate keys
		return &GenSpec{K: "make", Type: pick(dt, "mkmaptype", "mapbool", "mapboolstr", "structmapbool")}
	}
	return genScalarSpec(dt, cfg)
}

func genCustomSpec(dt *drv.T, cfg GenCfg) *GenSpec {
	s := &GenSpec{K: "custom"}
	inner := cfg
	inner.Custom = false // one level of Custom nesting is enough to reach the inner-T code paths
	if cfg.CustomStmts && chance(dt, "cskipfirst", 10) {
		// skipping before any draw: the function is retried and finally rejected
		s.Body = append(s.Body, &Stmt{Op: "skip", Kind: pick(dt, "skipkind", skipKinds...)})
	}
	if cfg.CleanupBeforeSkip && chance(dt, "cearlycleanup", 60) {
		s.Body = append(s.Body, &Stmt{Op: "cleanup", Body: []*Stmt{{Op: "ctx"}}}, &Stmt{Op: "ctx"})
	}
	// first the part that may reject the attempt: draws and data-dependent skips. An attempt that is rejected is
	// discarded by the library, so nothing with a lasting effect (signals, signalling cleanups) may precede a skip.
	nd := 1
	if chance(dt, "cdraw2", 40) {
		nd = 2
	}
	for i := 0; i < nd; i++ {
		s.Body = append(s.Body, &Stmt{Op: "draw", Gen: GenGenSpec(dt, inner), Label: fmt.Sprintf("c%d", i)})
		if cfg.CustomStmts && chance(dt, "cskipif", 35) {
			s.Body = append(s.Body, &Stmt{Op: "if", Cond: genCond(dt), Body: []*Stmt{{Op: "skip", Kind: pick(dt, "skipkind", skipKinds...)}}})
		}
	}
	// a value produced by the function can still be rejected by an enclosing Filter / distinct collection, and the
	// attempt is then discarded: only signals that end the test case on the spot are generated here, unless the
	// check looks at the verdict only (C02)
	ckinds := hardSigKinds
	if cfg.CustomNonFatal {
		ckinds = allSigKinds
	}
	if cfg.CustomStmts {
		n := drv.IntRange(0, 2).Draw(dt, "ncstmt")
		for i := 0; i < n; i++ {
			switch pick(dt, "cstmt", "cleanup", "ctx", "sigif") {
			case "cleanup":
				s.Body = append(s.Body, genCleanupK(dt, 1, ckinds))
			case "ctx":
				s.Body = append(s.Body, &Stmt{Op: "ctx"})
			case "sigif":
				s.Body = append(s.Body, &Stmt{Op: "if", Cond: genCond(dt), Body: []*Stmt{genSig(dt, ckinds)}})
			}
		}
	}
	return s
}

// ---- programs ------------------------------------------------------------------------------------------

func genCond(dt *drv.T) *Cond {
	c := &Cond{Draw: drv.IntRange(0, 5).Draw(dt, "cdraw")}
	switch pick(dt, "cop", "ge", "ge", "le", "mod", "mod", "eq", "true") {
	case "ge":
		c.Op = "ge"
		c.C = int64(pick(dt, "cc", 0, 1, 2, 3, 5, 8, 13, 40, 100, 1000, 1<<20))
	case "le":
		c.Op = "le"
		c.C = int64(pick(dt, "cc", -1000, -5, -1, 0, 1, 2, 5, 40))
	case "mod":
		c.Op = "mod"
		c.M = int64(drv.IntRange(2, 7).Draw(dt, "cm"))
		c.C = int64(drv.IntRange(0, int(c.M)-1).Draw(dt, "cr"))
	case "eq":
		c.Op = "eq"
		c.C = int64(drv.IntRange(0, 4).Draw(dt, "cc"))
	default:
		c.Op = "true"
	}
	return c
}

func genSig(dt *drv.T, kinds []string) *Stmt {
	return &Stmt{Op: "sig", Kind: pick(dt, "sigkind", kinds...), Site: drv.IntRange(0, 11).Draw(dt, "site"), Empty: chance(dt, "emptymsg", 8)}
}

func genCleanup(dt *drv.T, depth int) *Stmt { return genCleanupK(dt, depth, allSigKinds) }

var hardSigKinds = append(append([]string{}, fatalKinds...), panicKinds...)

func genCleanupK(dt *drv.T, depth int, kinds []string) *Stmt {
	st := &Stmt{Op: "cleanup"}
	n := drv.IntRange(0, 2).Draw(dt, "ncl")
	for i := 0; i < n; i++ {
		switch pick(dt, "clstmt", "ctx", "log", "sig", "nested") {
		case "ctx":
			st.Body = append(st.Body, &Stmt{Op: "ctx"})
		case "log":
			st.Body = append(st.Body, &Stmt{Op: "log", N: drv.IntRange(0, 20).Draw(dt, "logn")})
		case "sig":
			if chance(dt, "clsig", 30) {
				st.Body = append(st.Body, genSig(dt, kinds))
			}
		case "nested":
			if depth > 0 {
				st.Body = append(st.Body, genCleanupK(dt, depth-1, kinds))
			}
		}
	}
	return st
}

// ProgCfg selects the shape of generated programs.
type ProgCfg struct {
	Gen        GenCfg
	MaxStmts   int
	Repeat     bool // allow state machines
	Cleanups   bool
	Ctx        bool
	Go         bool
	Skips      bool
	SigPct     int      // chance (per conditional block) that the block signals
	SigKinds   []string // default: all
	FailAtEnd  bool     // last statement fails unconditionally (every seed yields a failing run)
	Labels     bool     // always label draws
	NoSkipInSM bool
}

func genSimpleBlock(dt *drv.T, pc ProgCfg, where string) []*Stmt {
	var out []*Stmt
	kinds := pc.SigKinds
	if kinds == nil {
		kinds = allSigKinds
	}
	n := drv.IntRange(1, 2).Draw(dt, "nblock")
	for i := 0; i < n; i++ {
		menu := []string{"sig"}
		if pc.Skips && where == "body" {
			// inside actions skips come only in the shapes of genRepeatStmt: a skipped action is discarded by the
			// library, so nothing with a lasting effect may precede the skip
			menu = append(menu, "skip")
		}
		if pc.Cleanups {
			menu = append(menu, "cleanup")
		}
		if pc.Ctx {
			menu = append(menu, "ctx")
		}
		if pc.Go && where != "go" {
			menu = append(menu, "go")
		}
		menu = append(menu, "log")
		switch pick(dt, "bstmt", menu...) {
		case "sig":
			if chance(dt, "sigpct", pc.SigPct) {
				out = append(out, genSig(dt, kinds))
			}
		case "skip":
			out = append(out, &Stmt{Op: "skip", Kind: pick(dt, "skipkind", skipKinds...), Site: i})
		case "cleanup":
			out = append(out, genCleanup(dt, 1))
		case "ctx":
			out = append(out, &Stmt{Op: "ctx"})
		case "go":
			g := &Stmt{Op: "go"}
			if chance(dt, "gosig", 50) {
				g.Body = append(g.Body, genSig(dt, nonFatalKinds))
			}
			if pc.Ctx {
				g.Body = append(g.Body, &Stmt{Op: "ctx"})
			}
			g.Body = append(g.Body, &Stmt{Op: "log", N: 3})
			out = append(out, g)
		case "log":
			out = append(out, &Stmt{Op: "log", N: drv.IntRange(0, 30).Draw(dt, "logn"), Kind: pick(dt, "logkind", "Logf", "Log")})
		}
	}
	return out
}

func genRepeatStmt(dt *drv.T, pc ProgCfg, label *int) *Stmt {
	st := &Stmt{Op: "repeat", Shared: chance(dt, "sharedmap", 25)}
	na := drv.IntRange(1, 4).Draw(dt, "nactions")
	names := actionNames(dt)
	for i := 0; i < na; i++ {
		a := &Action{Name: names[i]}
		shape := pick(dt, "ashape", "draw", "draw", "skipfirst", "skipafter", "condskip", "plain")
		if pc.NoSkipInSM && shape != "draw" {
			shape = "plain"
		}
		switch shape {
		case "skipfirst":
			a.Body = append(a.Body, &Stmt{Op: "skip", Kind: pick(dt, "skipkind", skipKinds...)})
		case "skipafter":
			a.Body = append(a.Body, progDraw(dt, pc, label), &Stmt{Op: "skip", Kind: pick(dt, "skipkind", skipKinds...)})
		case "condskip":
			a.Body = append(a.Body, progDraw(dt, pc, label), &Stmt{Op: "if", Cond: genCond(dt), Body: []*Stmt{{Op: "skip", Kind: pick(dt, "skipkind", skipKinds...)}}})
		case "draw":
			a.Body = append(a.Body, progDraw(dt, pc, label))
		}
		if chance(dt, "ablock", 60) {
			a.Body = append(a.Body, &Stmt{Op: "if", Cond: genCond(dt), Body: genSimpleBlock(dt, pc, "action")})
		}
		st.Actions = append(st.Actions, a)
	}
	if chance(dt, "hasinv", 60) {
		st.HasInv = true
		if chance(dt, "invblock", 50) {
			st.Inv = append(st.Inv, &Stmt{Op: "if", Cond: genCond(dt), Body: genSimpleBlock(dt, pc, "inv")})
		}
	}
	return st
}

// actionNames picks a naming scheme for the actions of a state machine: plain, names that differ only in
// case, names that are prefixes of each other, non-ASCII names.
func actionNames(dt *drv.T) []string {
	switch pick(dt, "naming", "plain", "plain", "case", "prefix", "unicode") {
	case "case":
		return []string{"act", "Act", "ACT", "aCt", "acT", "AcT"}
	case "prefix":
		return []string{"a", "aa", "aaa", "a ", "a-", "aA"}
	case "unicode":
		return []string{"ä", "Ä", "б", "Б", "ǅ", "ǆ"}
	}
	return []string{"a0", "a1", "a2", "a3", "a4", "a5"}
}

func progDraw(dt *drv.T, pc ProgCfg, label *int) *Stmt {
	*label++
	st := &Stmt{Op: "draw", Gen: GenGenSpec(dt, pc.Gen)}
	if pc.Labels || chance(dt, "labelled", 60) {
		st.Label = fmt.Sprintf("d%d", *label)
	}
	return st
}

// GenProg generates a property function.
func GenProg(dt *drv.T, pc ProgCfg) *Prog {
	p := &Prog{}
	label := 0
	n := drv.IntRange(1, pc.MaxStmts).Draw(dt, "nstmts")
	hasRepeat := false
	p.Body = append(p.Body, progDraw(dt, pc, &label))
	for i := 0; i < n; i++ {
		menu := []string{"draw", "draw", "ifblock", "ifblock"}
		if pc.Repeat && !hasRepeat {
			menu = append(menu, "repeat")
		}
		if pc.Cleanups {
			menu = append(menu, "cleanup")
		}
		switch pick(dt, "stmt", menu...) {
		case "draw":
			p.Body = append(p.Body, progDraw(dt, pc, &label))
		case "ifblock":
			p.Body = append(p.Body, &Stmt{Op: "if", Cond: genCond(dt), Body: genSimpleBlock(dt, pc, "body")})
		case "repeat":
			hasRepeat = true
			pcl := pc
			pcl.Labels = true
			p.Body = append(p.Body, genRepeatStmt(dt, pcl, &label))
		case "cleanup":
			p.Body = append(p.Body, genCleanup(dt, 1))
		}
	}
	if pc.FailAtEnd {
		kinds := pc.SigKinds
		if kinds == nil {
			kinds = allSigKinds
		}
		p.Body = append(p.Body, genSig(dt, kinds))
	}
	if hasRepeat {
		// with a state machine the library draws action names from the same T: all draws are labelled, so that
		// the harness can tell its own draws from the library's in the "[rapid] draw" log lines
		for _, st := range allStmts(p.Body) {
			if st.Op == "draw" && st.Label == "" {
				label++
				st.Label = fmt.Sprintf("d%d", label)
			}
		}
	}
	return p
}

// HasOp reports whether the program contains a statement with the given op.
func (p *Prog) HasOp(op string) bool {
	for _, st := range allStmts(p.Body) {
		if st.Op == op {
			return true
		}
		if st.Gen != nil && st.Gen.K == "custom" {
			for _, cs := range allStmts(st.Gen.Body) {
				if cs.Op == op {
					return true
				}
			}
		}
	}
	return false
}

// HasGenKind reports whether any generator expression of the program has one of the kinds.
func (p *Prog) HasGenKind(kinds ...string) bool {
	for _, st := range p.Body {
		if stmtHasGenKind(st, kinds...) {
			return true
		}
	}
	return false
}
